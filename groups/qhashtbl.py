U = ['src/containers/qhashtbl.c', 'src/utilities/qhash.c']
P = ['C05', 'C11', 'C12', 'C14', 'C15']
INST = [dict(HR=r, HN=n, **({} if n <= 2 else {'tier': 'thorough'})) for r in (1, 2, 3) for n in (0, 1, 2, 3, 4)]

def hg(name, entry, funcs, inst=INST, **kw):
    d = dict(name='hashtbl_' + name, harness='qhashtbl/hashtbl.c', entry=entry, mode='unwind', unwind=7, fp=True, props=P, functions=funcs,
             units=U, strength='bounded', timeout=900, flags=['--memory-leak-check'], native_leaks=True,
             bound='every table with range HR in 1..3 and exactly HN entries (quick 0..2, thorough 0..4) over an alphabet of 4 one-character keys, values 1..2 bytes, hash function uninterpreted',
             instances=inst)
    d.update(kw)
    return d

GROUPS = [
    hg('put', 'h_put', ['qhashtbl_put', 'qhashtbl_putstr', 'qhashtbl_lock', 'qhashtbl_unlock', 'qhashtbl_free', 'qhashtbl_clear']),
    hg('get_remove', 'h_get_remove', ['qhashtbl_get', 'qhashtbl_getstr', 'qhashtbl_remove', 'qhashtbl_size']),
    hg('walk_clear', 'h_walk_clear', ['qhashtbl_getnext', 'qhashtbl_clear']),
    hg('ctor', 'h_ctor', ['qhashtbl', 'qhashtbl_free'], inst=[dict(HR=r, HN=0) for r in (1, 3)]),
]


def c13(groups):
    """C13 overlay on put / get / remove: tables with <= 2 entries"""
    out = []
    for g in groups:
        if g['name'] not in ('hashtbl_put', 'hashtbl_get_remove'):
            continue
        h = dict(g)
        h['name'] = g['name'].replace('hashtbl_', 'hashtbl_c13_')
        h['props'] = ['C13']
        h['defines'] = list(g.get('defines', [])) + ['-DQV_C13']
        h['instances'] = [dict(i) for i in g['instances'] if i.get('tier') != 'thorough']
        out.append(h)
    return out


GROUPS = GROUPS + c13(GROUPS)
