U = 'src/utilities/qstring.c'

def sg(name, entry, funcs, sizes_q, sizes_t, extra=None, **kw):
    inst = [dict(SN=n, **(extra or {})) for n in sizes_q] + [dict(SN=n, tier='thorough', **(extra or {})) for n in sizes_t]
    d = dict(name='str_' + name + '_bounded', harness='qstring/bounded.c', entry=entry, mode='unwind', unwind=kw.pop('unwind', 12),
             props=['C19', 'C11'], functions=funcs, units=[U], strength='bounded', timeout=900,
             bound='every buffer of exactly SN bytes over all 256 byte values (covers every string of length <= SN); token/word <= 2 bytes',
             instances=inst)
    d.update(kw)
    return d

def rep_inst(a, b, c, **kw):
    # per-loop bounds: the scans over the source stop after SN+1 steps although the cursor jumps by the token length
    # cbmc numbers loops by back edge: 0 word loop (token mode), 1 token scan, 2 source scan (token mode), 3 word loop (string mode), 4 source scan (string mode)
    us = 'qstrreplace.0:%d,qstrreplace.1:%d,qstrreplace.2:%d,qstrreplace.3:%d,qstrreplace.4:%d,strncmp.0:%d' % (c + 2, b + 2, a + 2, c + 2, a + 2, b + 2)
    return dict(SN=a, TN=b, WN=c, unwind=max(6, a * max(c, 1) + 2), unwindset=us, **kw)

RS = 'weave/rules/qstring.json'

def pg(name, entry, funcs, weave_funcs=None, **kw):
    d = dict(name='str_' + name, harness='qstring/unbounded.c', entry=entry, unwind=2, props=['C19', 'C11'], functions=funcs, units=[U],
             strength='proof', timeout=300, bound='none (strings of any length up to 10^6, arbitrary bytes)')
    if weave_funcs:
        d['weave'] = {U: {'rules': RS, 'funcs': weave_funcs}}
    d.update(kw)
    return d

GROUPS = [
    pg('upper_lower', 'h_upper_lower', ['qstrupper', 'qstrlower'], ['qstrupper', 'qstrlower'], instances=[dict(WHICH=0), dict(WHICH=1)]),
    pg('trim_tail', 'h_trim_tail', ['qstrtrim_tail'], ['qstrtrim_tail']),
    pg('trim_head', 'h_trim_head', ['qstrtrim_head'], ['qstrtrim_head']),
    pg('trim', 'h_trim', ['qstrtrim'], ['qstrtrim']),
    pg('rev', 'h_rev', ['qstrrev'], ['qstrrev']),
    pg('unchar', 'h_unchar', ['qstrunchar']),
    pg('copy', 'h_copy', ['qstrcpy', 'qstrncpy']),
    pg('gets', 'h_gets', ['qstrgets'], ['qstrgets']),
    sg('trim', 'h_trim', ['qstrtrim', 'qstrtrim_head', 'qstrtrim_tail'], [3, 6], [8]),
    sg('case_rev_unchar', 'h_case_rev_unchar', ['qstrupper', 'qstrlower', 'qstrrev', 'qstrunchar'], [3, 6], [8]),
    sg('copy', 'h_copy', ['qstrcpy', 'qstrncpy'], [2, 5], [7]),
    sg('gets', 'h_gets', ['qstrgets'], [3, 5], [7]),
    dict(name='str_replace_bounded', harness='qstring/bounded.c', entry='h_replace', mode='unwind', unwind=14, props=['C19', 'C11'],
         functions=['qstrreplace'], units=[U], strength='bounded', timeout=600,
         bound='source of exactly SN bytes (0..5), token of exactly TN (1..2), word of exactly WN (0..2, and 3 in string mode) bytes (except the combination 5/2/2, which exhausts memory), all non-NUL byte values, all four modes',
         instances=[rep_inst(a, b, c, **({} if (a <= 3 and (a, b, c) != (3, 2, 2)) else {'tier': 'thorough'})) for a in range(0, 6) for b in (1, 2) for c in (0, 1, 2) if (a, b, c) != (5, 2, 2)] +
                   [rep_inst(a, b, 3, TMODE=0, **({} if a <= 3 else {'tier': 'thorough'})) for a in (1, 2, 3, 4) for b in (1, 2)]),
    sg('tok', 'h_tok', ['qstrtok'], [3, 4], [5, 6]),
    sg('dup', 'h_dup', ['qstrdup_between', 'qmemdup'], [3, 5], [6], props=['C19', 'C11', 'C12']),
]
