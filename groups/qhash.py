U = ['src/utilities/qhash.c', 'src/internal/md5/md5c.c']
R = 'weave/rules/qhash.json'

def hg(name, entry, funcs, weave_funcs=None, **kw):
    d = dict(name='hash_' + name, harness='qhash/hash.c', entry=entry, unwind=2, props=['C18', 'C11'], functions=funcs, units=U, solver='z3',
             strength='proof', timeout=300, bound='none (any length 1..10^6, arbitrary bytes)')
    if weave_funcs:
        d['weave'] = {'src/utilities/qhash.c': {'rules': R, 'funcs': weave_funcs}}
    d.update(kw)
    return d

QUICK_N = (1, 2, 3, 4, 5, 7, 8, 15, 16, 17, 31, 32, 33, 48, 64, 65)
MD_QUICK = (1, 2, 3, 54, 55, 56, 57, 63, 64, 65, 118, 119, 120, 121, 127, 128, 129, 130)
GROUPS = [
    hg('fnv32', 'h_fnv32', ['qhashfnv1_32'], ['qhashfnv1_32'], solver='cadical'),
    hg('fnv64', 'h_fnv64', ['qhashfnv1_64'], ['qhashfnv1_64'], solver='cadical', timeout=900),
    hg('mm32_reads', 'h_mm32', ['qhashmurmur3_32'], ['qhashmurmur3_32'], solver='cadical'),
    hg('mm128_reads', 'h_mm128', ['qhashmurmur3_128'], ['qhashmurmur3_128'], solver='cadical'),
    hg('mm_bounded', 'h_hash_bounded', ['qhashmurmur3_32', 'qhashmurmur3_128'], mode='unwind', unwind=140,
       strength='bounded', bound='input length exactly HN bytes, arbitrary content',
       instances=[dict(HN=i, WHICH=w, **({} if i in QUICK_N else {'tier': 'thorough'})) for i in range(1, 131) for w in (2, 3)]),
    dict(name='md5_transform', harness='qhash/md5.c', entry='h_md5_transform', mode='unwind', unwind=66, solver='z3', props=['C18', 'C11'],
         functions=['MD5Transform', 'MD5Init'], units=U, strength='proof', timeout=600,
         bound='none (loop-free real code, all 2^128 states x 2^512 blocks)'),
    dict(name='md5_padding', harness='qhash/md5.c', entry='h_md5_padding', mode='unwind', unwind=200, solver='cadical', props=['C18', 'C11'],
         functions=['qhashmd5', 'MD5Update', 'MD5Pad', 'MD5Final'], units=U, strength='bounded', timeout=600,
         weave={'src/internal/md5/md5c.c': {'rules': 'weave/rules/md5c.json', 'tags': ['stubcompress']}},
         bound='message length exactly MDN bytes (quick: boundary lengths up to 130, thorough: every length 1..130), arbitrary content; compression function replaced by a recording stub',
         instances=[dict(MDN=i, **({} if i in MD_QUICK else {'tier': 'thorough'})) for i in range(1, 131)]),
]
