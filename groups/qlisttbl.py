U = ['src/containers/qlisttbl.c', 'src/utilities/qhash.c']
P = ['C08', 'C11', 'C12', 'C14', 'C15']

def lg(name, entry, funcs, inst, **kw):
    d = dict(name='listtbl_' + name, harness='qlisttbl/listtbl.c', entry=entry, mode='unwind', unwind=8, fp=True, props=P, functions=funcs,
             fp_extra={'namematch': ['namematch', 'namecasematch'], 'namecmp': ['strcmp', 'strcasecmp']},
             units=U, strength='bounded', timeout=1200, flags=['--memory-leak-check'], native_leaks=True,
             bound='every table of exactly TN entries (quick 0..2, thorough 3), all 16 option combinations symbolic, names from {a,A,b}, values 1..2 bytes',
             instances=inst)
    d.update(kw)
    return d

INST = [dict(TN=n, unwind=max(6, n + 4), **({} if n <= 2 else {'tier': 'thorough'})) for n in (0, 1, 2, 3)]
GROUPS = [
    lg('put', 'h_put', ['qlisttbl_put', 'newobj', 'insertobj', 'qlisttbl_remove', 'qlisttbl_removeobj', 'qlisttbl_getnext', 'findobj', 'namematch', 'namecasematch'], INST),
    lg('get_remove', 'h_get_remove', ['qlisttbl_get', 'qlisttbl_getmulti', 'qlisttbl_freemulti', 'qlisttbl_remove', 'qlisttbl_size', 'findobj'], INST),
    lg('walk_sort', 'h_walk_sort', ['qlisttbl_getnext', 'qlisttbl_removeobj', 'qlisttbl_sort', 'qlisttbl_clear', 'qlisttbl_free'], INST),
    lg('ctor', 'h_ctor', ['qlisttbl', 'qlisttbl_free'], [dict(TN=0)]),
]


def c13(groups):
    """C13 overlay on put / get / getmulti / remove, tables of 0..2 entries"""
    out = []
    for g in groups:
        if g['name'] not in ('listtbl_put', 'listtbl_get_remove'):
            continue
        h = dict(g)
        h['name'] = g['name'].replace('listtbl_', 'listtbl_c13_')
        h['props'] = ['C13']
        h['defines'] = list(g.get('defines', [])) + ['-DQV_C13']
        h['instances'] = [dict(i) for i in g['instances'] if i.get('tier') != 'thorough']
        out.append(h)
    return out


GROUPS = GROUPS + c13(GROUPS)
