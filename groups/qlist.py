UNITS = ['src/containers/qlist.c', 'src/containers/qqueue.c', 'src/containers/qstack.c', 'src/containers/qgrow.c']
P = ['C09', 'C11', 'C12', 'C14', 'C15']

def lg(name, entry, funcs, inst, **kw):
    d = dict(name='list_' + name, harness='qlist/list.c', entry=entry, mode='unwind', unwind=12, fp=True, props=P, functions=funcs,
             units=UNITS, strength='bounded', timeout=900, flags=['--memory-leak-check'], native_leaks=True,
             bound='every list of exactly LN elements (quick 0..3, thorough 0..5), element size 1..2 bytes symbolic, arbitrary bytes, index in [-LN-3, LN+3], max in 0..LN+2',
             instances=inst)
    d.update(kw)
    return d

def inst(nvar, quick=(0, 1, 2, 3), thorough=(4, 5)):
    out = []
    for n in quick + thorough:
        for v in range(nvar):
            d = dict(LN=n, VARIANT=v)
            if n in thorough:
                d['tier'] = 'thorough'
            out.append(d)
    return out

GROUPS = [
    lg('add', 'h_add', ['qlist_addat', 'qlist_addfirst', 'qlist_addlast', 'get_obj', 'qlist_lock', 'qlist_unlock'], inst(3)),
    lg('access', 'h_access', ['qlist_getat', 'qlist_getfirst', 'qlist_getlast', 'qlist_popat', 'qlist_popfirst', 'qlist_poplast',
                              'qlist_removeat', 'qlist_removefirst', 'qlist_removelast', 'get_at', 'get_obj', 'remove_obj'], inst(9)),
    lg('walk_reverse_clear', 'h_walk_reverse_clear', ['qlist_getnext', 'qlist_size', 'qlist_datasize', 'qlist_reverse', 'qlist_setsize', 'qlist_clear', 'qlist_free'],
       [dict(LN=n, **({} if n <= 3 else {'tier': 'thorough'})) for n in range(0, 6)]),
    lg('flatten', 'h_flatten', ['qlist_toarray', 'qlist_tostring'], [dict(LN=n, **({} if n <= 3 else {'tier': 'thorough'})) for n in range(0, 6)]),
    lg('wrappers', 'h_wrappers', ['qqueue_push', 'qqueue_pop', 'qqueue_size', 'qqueue', 'qqueue_free', 'qstack_push', 'qstack_pop', 'qstack', 'qstack_free',
                                  'qgrow_add', 'qgrow_toarray', 'qgrow', 'qgrow_free', 'qlist'], [dict(LN=0, VARIANT=v) for v in (0, 1, 2)],
       bound='two pushed elements of 1..2 symbolic bytes'),
]


# refusal lemma: unbounded in the list length (refusal paths are loop-free, element pointers are poison)
GROUPS.append(dict(name='list_refusal', harness='qlist/refusal.c', entry='h_list_refusal', mode='unwind', unwind=2, fp=True, props=['C09', 'C11', 'C14'],
                   functions=['qlist_getat', 'qlist_popat', 'qlist_removeat', 'qlist_addat', 'get_at', 'get_obj', 'qlist_lock', 'qlist_unlock'],
                   units=['src/containers/qlist.c'], strength='proof', timeout=300, replay=False,
                   bound='none on the list length (num symbolic up to INT_MAX, every int index); covers the refusal paths only'))


def c13(groups):
    """C13 overlay on the operations the property names (insert, copying get / pop / remove, flatten), lists of 0..2 elements"""
    out = []
    for g in groups:
        if g['name'] not in ('list_add', 'list_access', 'list_flatten'):
            continue
        h = dict(g)
        h['name'] = g['name'].replace('list_', 'list_c13_')
        h['props'] = ['C13']
        h['defines'] = list(g.get('defines', [])) + ['-DQV_C13']
        h['instances'] = [dict(i) for i in g['instances'] if i.get('LN') in (0, 1, 2) and i.get('tier') != 'thorough']
        out.append(h)
    return out


GROUPS = GROUPS + c13(GROUPS)
