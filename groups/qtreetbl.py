U = ['src/containers/qtreetbl.c', 'src/utilities/qstring.c']
P_ALL = ['C01', 'C02', 'C11', 'C12', 'C14', 'C15']
FP = {'compare': ['gh_cmp']}

from functools import lru_cache


def shapes(TD):
    """every set of occupied positions of the complete-binary-tree layout of height TD that admits a valid
    LLRB 2-3-4 colouring with a black root (dynamic programme over (colour, black height) per subtree)"""
    NN = (1 << TD) - 1

    @lru_cache(None)
    def sub(i):
        res = {0: frozenset({(False, 0)})}
        if i >= NN:
            return res
        L, R = sub(2 * i + 1), sub(2 * i + 2)
        for lm, ls in L.items():
            for rm, rs in R.items():
                oc = set()
                for c in (False, True):
                    for (lr, lb) in ls:
                        for (rr, rb) in rs:
                            lr_, rr_ = lr and lm != 0, rr and rm != 0
                            if lb != rb or (c and (lr_ or rr_)) or (rr_ and not lr_):
                                continue
                            oc.add((c, lb + (0 if c else 1)))
                if oc:
                    res[(1 << i) | lm | rm] = frozenset(oc)
        return res
    r = sub(0)
    return sorted(m for m, st in r.items() if m == 0 or any(not c for c, _ in st))


def shape_inst(unw2, unw3, thorough3=False, **kw):
    out = [dict(TD=2, SHAPE=m, unwind=unw2, **kw) for m in shapes(2)]
    out += [dict(TD=3, SHAPE=m, unwind=unw3, **dict(kw, **({'tier': 'thorough'} if thorough3 else {}))) for m in shapes(3) if m not in shapes(2)]
    return out


def colourings(TD, m):
    """every valid LLRB 2-3-4 colouring (black root) of the shape m"""
    NN = (1 << TD) - 1
    idx = [i for i in range(NN) if (m >> i) & 1]
    res = []
    for bits in range(1 << len(idx)):
        red = {i: bool((bits >> j) & 1) for j, i in enumerate(idx)}

        def val(i, pr):
            if i >= NN or not (m >> i) & 1:
                return 0
            r = red[i]
            if r and pr:
                return -1
            lc, rc = 2 * i + 1, 2 * i + 2
            lred = lc < NN and (m >> lc) & 1 and red[lc]
            rred = rc < NN and (m >> rc) & 1 and red[rc]
            if rred and not lred:
                return -1
            a, b = val(lc, r), val(rc, r)
            if a < 0 or b < 0 or a != b:
                return -1
            return a + (0 if r else 1)
        if m == 0 or (not red[0] and val(0, False) >= 0):
            res.append(sum((1 << i) for i in idx if red[i]))
    return res


def probe_inst(unw2, unw3, tds=(2, 3)):
    """(shape, colouring, operation-key) instances with canonical keys (see closed.c): every LLRB 2-3-4 tree of the height, PROBE ranges over 0..2n"""
    out = []
    ntree = [0]
    for td, unw in ((2, unw2), (3, unw3)):
        if td not in tds:
            continue
        for m in shapes(td):
            if td == 3 and m in shapes(2):
                continue
            n = bin(m).count('1')
            for c in colourings(td, m):
                ntree[0] += 1
                for k in range(0, 2 * n + 1):
                    d = dict(TD=td, SHAPE=m, COLORS=c, KEYS_CANON=1, PROBE=k, unwind=unw)
                    # quick tier: all trees of height <= 2 and every third tree of height 3; thorough: all
                    if td == 3 and k % 2 == 0:
                        # insertion of a new key into a tree of height 3: 4-6 GB and minutes per query
                        d['tier'] = 'thorough'
                    if td == 3 and ntree[0] % 3 != 0:
                        d['tier'] = 'thorough'
                    out.append(d)
    return out


# height-3 allocation-failure instances (thorough tier since the window induction step tree_win_step covers allocation failure
# below 4-nodes at any depth in the quick tier; they needed > 10 min each and pushed the C02 quick check over 15 min): insertion below a non-root 4-node (5-node tree whose
# right child is a 4-node); the other height-3 trees exhaust memory with allocation failure enabled and are not registered
PUT_FAIL_QUICK3 = {(103, 96, 4), (103, 96, 6), (103, 96, 8), (103, 96, 10)}


def tg(name, entry, funcs, props, inst, **kw):
    d = dict(name='tree_' + name, harness='qtreetbl/closed.c', entry=entry, mode='unwind', unwind=8, fp=True, fp_extra=FP, props=props, functions=funcs,
             units=U, strength='bounded', timeout=1800, flags=['--memory-leak-check'], native_leaks=True,
             bound='every LLRB 2-3-4 tree of height <= TD (2: <= 3 keys, 3: <= 7 keys), one-byte keys under a rank comparator, values 0..2 bytes, arbitrary stamps',
             instances=inst)
    d.update(kw)
    return d

GROUPS = [
    # every (tree, key) pair with allocation succeeding: fully concrete structure, values symbolic
    tg('put', 'h_put', ['qtreetbl_putobj', 'put_obj', 'new_obj', 'rotate_left', 'rotate_right', 'flip_color', 'is_red', 'qtreetbl_free', 'free_objs'],
       ['C01', 'C02', 'C11', 'C12', 'C14'], [dict(d, weight=4, tier='thorough') if (d['TD'] == 3 and d['PROBE'] % 2 == 0) else (dict(d, tier='thorough') if (d['TD'] == 3 and (d['SHAPE'] + d['PROBE']) % 2 == 0) else d) for d in probe_inst(5, 9)
        # insertion of a NEW key into a height-3 tree costs 4-6 GB and minutes: registered for every third tree only (thorough)
        if not (d['TD'] == 3 and d['PROBE'] % 2 == 0 and (d['SHAPE'] * 7 + d['COLORS']) % 3 != 0)],
       flags=['--memory-leak-check', '--no-malloc-may-fail'], defines=['-DNOFAIL']),
    # the same with every allocation free to fail (C15), on the trees of height <= 2
    tg('put_fail', 'h_put', ['qtreetbl_putobj', 'put_obj', 'new_obj'], ['C15', 'C02', 'C11', 'C14'],
       probe_inst(5, 9, tds=(2,)) + [dict(d, tier='thorough', weight=4, timeout=2400)
                                    for d in probe_inst(5, 9, tds=(3,)) if (d['SHAPE'], d['COLORS'], d['PROBE']) in PUT_FAIL_QUICK3]),
    tg('remove', 'h_remove', ['qtreetbl_removeobj', 'remove_obj', 'remove_min', 'move_red_left', 'move_red_right', 'fix', 'find_min'], P_ALL,
       probe_inst(5, 9)),
    tg('get', 'h_get', ['qtreetbl_getobj', 'find_obj', 'qtreetbl_size', 'qtreetbl_find_min', 'qtreetbl_find_max', 'find_min', 'find_max', 'qtreetbl_clear'], P_ALL,
       shape_inst(5, 9, thorough3=True)),
    tg('walk', 'h_walk', ['qtreetbl_getnext', 'reset_iterator'], ['C03', 'C11', 'C12', 'C15'],
       shape_inst(7, 11, thorough3=True)),
    tg('nearest', 'h_nearest', ['qtreetbl_find_nearest', 'qtreetbl_getnext', 'reset_iterator'], ['C04', 'C03', 'C11', 'C14', 'C15'],
       shape_inst(7, 11, thorough3=True)),
    tg('checker', 'h_checker', ['qtreetbl_check', 'node_check_root', 'node_check_red', 'node_check_black', 'node_check_llrb'], ['C02'],
       [dict(TD=2, unwind=5), dict(TD=3, unwind=9)]),
]


def c13(groups):
    """C13 overlay on put / remove / get+min+max+clear: trees of height <= 2"""
    out = []
    for g in groups:
        if g['name'] not in ('tree_put', 'tree_remove', 'tree_get'):
            continue
        h = dict(g)
        h['name'] = g['name'].replace('tree_', 'tree_c13_')
        h['props'] = ['C13']
        h['defines'] = list(g.get('defines', [])) + ['-DQV_C13']
        h['instances'] = [dict(i) for i in g['instances'] if i.get('TD') == 2]
        out.append(h)
    return out


# carrier A: DFCC-enforced function contracts on the loop-free helpers (no canary: the harness only calls the function,
# the contract instrumentation generates the obligations; vacuity is guarded by the obligation count)
for _f in ('rotate_left', 'rotate_right', 'flip_color'):
    GROUPS.append(dict(name='tree_dfcc_' + _f, harness='qtreetbl/helpers_dfcc.c', entry='h_dfcc_' + _f, mode='dfcc', enforce=[_f], props=['C02', 'C11'],
                       functions=[_f], units=U, strength='proof', timeout=300, require_canary=False, replay=False,
                       bound='none (loop-free; arbitrary fresh nodes)'))

GROUPS.append(dict(name='tree_dfcc_move_red_right', harness='qtreetbl/helpers_dfcc.c', entry='h_dfcc_move_red_right', mode='dfcc', enforce=['move_red_right'],
                   replace=['flip_color', 'rotate_right'], props=['C02', 'C11'], functions=['move_red_right', 'flip_color (by contract)', 'rotate_right (by contract)'],
                   units=U, strength='proof', timeout=300, require_canary=False, replay=False, bound='none (loop-free; callee bodies replaced by their contracts)'))

GROUPS.append(dict(name='tree_dfcc_move_red_left', harness='qtreetbl/helpers_dfcc.c', entry='h_dfcc_move_red_left', mode='dfcc', enforce=['move_red_left'], solver='cadical',
                   replace=[], props=['C02', 'C11'], functions=['move_red_left', 'flip_color', 'rotate_right', 'rotate_left'],
                   units=U, strength='proof', timeout=400, require_canary=False, replay=False, bound='none (loop-free; arbitrary fresh nodes; callee bodies inlined - the modular variant with three replaced callee contracts did not finish in 20 min)'))

# window induction for put_obj (DESIGN.md 1.4): unbounded in tree size; the recursive self-call is the induction hypothesis
# (weave rule rename_calls), qtreetbl_putobj is checked against the put_obj contract at the root
# (left child present, right child present, node red, left child red, right child red): every combination that is a valid LLRB 2-3-4 node
WIN_SHAPES = [(0, 0, 0, 0, 0), (0, 0, 1, 0, 0), (1, 0, 0, 1, 0), (1, 1, 0, 0, 0), (1, 1, 0, 1, 0), (1, 1, 0, 1, 1), (1, 1, 1, 0, 0)]
WR = {'src/containers/qtreetbl.c': {'rules': 'weave/rules/qtreetbl.json'}}
for _n, _e, _fn in (('step', 'h_win_put_step', ['put_obj', 'rotate_left', 'rotate_right', 'flip_color', 'is_red']),
                    ('null', 'h_win_put_null', ['put_obj', 'new_obj', 'qmemdup']),
                    ('putobj_top', 'h_win_putobj_top', ['qtreetbl_putobj', 'put_obj (by contract)', 'qtreetbl_lock', 'qtreetbl_unlock'])):
    GROUPS.append(dict(name='tree_win_' + _n, harness='qtreetbl/window.c', entry=_e, mode='unwind', unwind=8, fp=True, fp_extra=FP,
                       props=['C01', 'C02', 'C11', 'C12', 'C15'], functions=_fn, units=U, weave=WR, strength='proof', timeout=1500, solver='kissat',
                       **({'instances': [dict(WP1=a, WP2=b, WRED=c, WC1=e, WC2=f, WDIR=d) for (a, b, c, e, f) in WIN_SHAPES for d in (0, 1, 2)]} if _n == 'step' else {}),
                       bound='none on the tree: window of real nodes over summarised subtrees of any size (structural induction step); one-byte keys under a rank comparator, 2-byte values'))

GROUPS = GROUPS + c13(GROUPS)
