U = ['src/extensions/qlog.c', 'src/utilities/qstring.c']
GROUPS = [
    dict(name='qlog_ops', harness='qlog/qlog.c', entry='h_qlog', mode='unwind', unwind=6, fp=True, props=['C14', 'C11'], functions=['write_', 'duplicate', 'flush_', 'free_', '_real_open'],
         units=U, strength='proof', timeout=600, flags=['--memory-leak-check'],
         bound='none (loop-free apart from the mutex retry loop, which the trylock contract ends after one iteration; every logger state symbolic)'),
    dict(name='qlog_ctor', harness='qlog/qlog.c', entry='h_qlog_ctor', mode='unwind', unwind=6, fp=True, props=['C14', 'C15', 'C11'], functions=['qlog', '_real_open', 'free_', 'flush_'],
         units=U, strength='proof', timeout=600, flags=['--memory-leak-check'], bound='none (every option word, allocation and fopen free to fail)'),
]
