U = 'src/containers/qvector.c'
R = 'weave/rules/qvector.json'
SIZES_Q = [dict(OBJSIZE=1), dict(OBJSIZE=4)]
SIZES_T = [dict(OBJSIZE=2, tier='thorough'), dict(OBJSIZE=3, tier='thorough'), dict(OBJSIZE=8, tier='thorough'), dict(OBJSIZE=64, tier='thorough')]
SIZES = SIZES_Q + SIZES_T

def var(sizes, nvar):
    """instances: variant 0 (the *at function) for every element size; the first/last wrappers at the quick sizes"""
    out = []
    for s in sizes:
        for v in range(nvar):
            if v > 0 and s.get('tier') == 'thorough' and s['OBJSIZE'] != 3:
                continue
            d = dict(s); d['VARIANT'] = v
            out.append(d)
    return out

LK = ['qvector_lock', 'qvector_unlock']

def vg(name, entry, funcs, props, weave_funcs=None, **kw):
    d = dict(name='vector_' + name, harness='qvector/vector.c', entry=entry, fp=True, unwind=2,
             props=props, functions=funcs + LK, units=[U], strength='proof', timeout=600,
             bound='none on num/max (<= 10^6 only to keep int indexes meaningful); element size is the per-instance constant OBJSIZE')
    if weave_funcs:
        d['weave'] = {U: {'rules': R, 'funcs': weave_funcs}}
    d.update(kw)
    return d

ALLP = ['C10', 'C11', 'C12', 'C14', 'C15']
def c13(groups):
    """C13 overlay: the same contracts with shared state poisoned outside the critical section (thread-safe vectors, OBJSIZE 4)"""
    out = []
    for g in groups:
        if g['name'] in ('vector_ctor_free',):
            continue
        h = dict(g)
        h['name'] = g['name'].replace('vector_', 'vector_c13_')
        h['props'] = ['C13']
        h['defines'] = list(g.get('defines', [])) + ['-DQV_C13']
        h['instances'] = [i for i in g['instances'] if i.get('OBJSIZE') == 4]
        out.append(h)
    return out


GROUPS = [
    vg('addat', 'h_addat', ['qvector_addat', 'qvector_addfirst', 'qvector_addlast', 'qvector_resize'], ALLP, ['qvector_addat'], instances=var(SIZES, 3)),
    vg('getat', 'h_getat', ['qvector_getat', 'qvector_getfirst', 'qvector_getlast', 'get_at'], ALLP, instances=var(SIZES, 3)),
    vg('setat', 'h_setat', ['qvector_setat', 'qvector_setfirst', 'qvector_setlast', 'get_at'], ['C10', 'C11', 'C12', 'C14'], instances=var(SIZES, 3)),
    vg('removeat', 'h_removeat', ['qvector_removeat', 'qvector_removefirst', 'qvector_removelast', 'qvector_popat', 'qvector_popfirst', 'qvector_poplast', 'remove_at', 'get_at'], ALLP, instances=var(SIZES, 6)),
    vg('resize', 'h_resize', ['qvector_resize'], ['C10', 'C11', 'C14', 'C15'], instances=SIZES),
    vg('size_clear', 'h_size_clear', ['qvector_size', 'qvector_clear'], ['C10', 'C11', 'C14'], instances=SIZES_Q),
    vg('toarray', 'h_toarray', ['qvector_toarray'], ALLP, instances=SIZES),
    vg('reverse', 'h_reverse', ['qvector_reverse'], ['C10', 'C11', 'C14', 'C15'], ['qvector_reverse'], instances=SIZES),
    vg('getnext', 'h_getnext', ['qvector_getnext'], ALLP, instances=SIZES),
    vg('ctor_free', 'h_ctor_free', ['qvector', 'qvector_free', 'qvector_clear'], ['C10', 'C11', 'C14', 'C15'], flags=['--memory-leak-check'], instances=[dict(OBJSIZE=4)]),
]
GROUPS = GROUPS + c13(GROUPS)
