import itertools

U = ['src/containers/qhasharr.c', 'src/utilities/qhash.c']
P = ['C06', 'C07']
FIRST, EXT = 32, 66


def images(HM, A=3):
    """every well-formed slot STRUCTURE of a table with HM slots over keys 0..A-1 (present keys are a prefix of the
    alphabet - the placement hash is uninterpreted, so key identities are interchangeable): per slot
    (count, hash, link, datasize, key); block sizes take both ends of their range (1 and full)."""
    out = set()
    for r in range(0, A + 1):
        present = tuple(range(r))
        for homes in itertools.product(range(HM), repeat=r):
            for lens in itertools.product(range(1, HM + 1), repeat=r):
                if sum(lens) > HM:
                    continue
                groups = {}
                for k, h in zip(present, homes):
                    groups.setdefault(h, []).append(k)
                for leaders in itertools.product(*[groups[h] for h in sorted(groups)]):
                    lead = dict(zip(sorted(groups), leaders))
                    free = [i for i in range(HM) if i not in lead]
                    others = [k for k in present if k not in leaders]
                    need = len(others) + sum(lens) - r
                    if need > len(free):
                        continue
                    for perm in itertools.permutations(free, need):
                        pos = {k: h for h, k in lead.items()}
                        for k, p in zip(others, perm[:len(others)]):
                            pos[k] = p
                        it = iter(perm[len(others):])
                        chains = {k: [pos[k]] + [next(it) for _ in range(l - 1)] for k, l in zip(present, lens)}
                        for lastsz in itertools.product((0, 1), repeat=r):
                            sl = [[0, 0, 0, 0, 0] for _ in range(HM)]
                            for (k, h, ls) in zip(present, homes, lastsz):
                                ch = chains[k]
                                for j, p in enumerate(ch):
                                    last = j == len(ch) - 1
                                    if j == 0:
                                        cnt = len(groups[h]) if pos[k] == h else -1
                                        sl[p] = [cnt, h, -1 if last else ch[j + 1], (FIRST if ls else 1) if last else FIRST, k]
                                    else:
                                        sl[p] = [-2, ch[j - 1], -1 if last else ch[j + 1], (EXT if ls else 1) if last else EXT, 0]
                            out.add(tuple(tuple(x) for x in sl))
    return sorted(out)


def cinit(img):
    return '{' + ','.join('{' + ','.join(str(v) for v in s) + '}' for s in img) + '}'


def inst(hms, vss=(None,), quick_step=24):
    """quick tier: every quick_step-th structure of the 2-slot tables; thorough: all of them (each instance costs ~1-2 min)"""
    out = []
    for hm in hms:
        for n, img in enumerate(images(hm)):
            for vs in vss:
                d = dict(HM=hm, IMGID=n, _IMG_INIT=cinit(img), unwind=hm + 3)
                if vs is not None:
                    d['VS'] = vs
                if hm >= 3 or n % quick_step != 0:
                    d['tier'] = 'thorough'
                out.append(d)
    return out


def ag(name, entry, funcs, instances, **kw):
    d = dict(name='hasharr_' + name, harness='qhasharr/hasharr.c', entry=entry, mode='unwind', unwind=8, fp=True, props=P, functions=funcs,
             units=U, strength='bounded', timeout=600, weave={'src/containers/qhasharr.c': {'rules': 'weave/rules/qhasharr.json'}}, flags=['--memory-leak-check'], native_leaks=True, unwindset='qv_memcpy.0:17',
             bound='every well-formed slot structure of a table with 2 slots (33 structures up to key renaming) over a 3-key alphabet with uninterpreted placement hash; block sizes 1 and full; value bytes arbitrary; put value length VS in {1,33,99}',
             instances=instances)
    d.update(kw)
    return d


SLOW = (10, 11, 12, 13, 18)      # structures with a free slot (put can succeed): 6-8 min each even alone, 2-7 GB


def inst_all(vss, quick_vs=(33,), with_slow=True):
    out = []
    for n, img in enumerate(images(2)):
        for vs in vss:
            d = dict(HM=2, IMGID=n, _IMG_INIT=cinit(img), unwind=5, VS=vs)
            if n in SLOW:
                if not with_slow or vs != 1:
                    continue        # values of 33/99 bytes on these structures exhaust 12 GB in the SAT solver: not admitted
                # one of them rides in the quick tier so that the success path of put is exercised on every change
                d.update(solver='minisat', timeout=3000, weight=4)
                if not (n == 11 and vs == 1):
                    d['tier'] = 'thorough'
            elif vs not in quick_vs:
                d['tier'] = 'thorough'
            out.append(d)
    return out


GROUPS = [
    # put (three-way placement, relocation of foreign blocks, rollback, replace = remove_by_idx + put): every structure
    ag('put', 'h_put', ['qhasharr_put_by_obj', 'put_data', 'get_idx', 'find_avail', 'copy_slot', 'remove_slot', 'remove_data', 'qhasharr_remove_by_idx'],
       inst_all((1, 33, 99)), unwindset='qv_memcpy.0:17,qhashmd5.0:17'),
    # get / remove: heavy (symbolic offsets into the result buffer); admitted to the thorough tier for the two structures that finish reliably
    ag('get_remove', 'h_get_remove', ['qhasharr_get_by_obj', 'get_data', 'get_idx', 'qhasharr_remove_by_obj', 'qhasharr_remove_by_idx', 'qhasharr_size'],
       [dict(HM=2, IMGID=n, _IMG_INIT=cinit(images(2)[n]), unwind=5, tier='thorough', timeout=2400) for n in (0, 24)]),
    # remove_by_idx: all 2-slot structures, and the 3-slot structures that contain a leading slot with collisions and an
    # extension block (promotion + back-link repair)
    ag('remove_idx', 'h_remove_idx', ['qhasharr_remove_by_idx', 'remove_data', 'remove_slot', 'copy_slot'],
       [dict(HM=2, IMGID=n, _IMG_INIT=cinit(img), unwind=5) for n, img in enumerate(images(2))] +
       [dict(HM=3, IMGID=n, _IMG_INIT=cinit(img), unwind=6, **({} if n % 4 == 0 else {'tier': 'thorough'})) for n, img in enumerate(images(3))
        if any(sl[0] >= 2 for sl in img) and any(sl[0] == -2 for sl in img)]),
    ag('init_attach', 'h_init_attach', ['qhasharr', 'qhasharr_calculate_memsize', 'qhasharr_free'], [dict(HM=2, unwind=6), dict(HM=4, unwind=6)], props=['C07']),
    ag('relocate', 'h_relocate', ['qhasharr_put_by_obj', 'qhasharr'], inst_all((33,), with_slow=False), props=['C07'], unwindset='qv_memcpy.0:17,qhashmd5.0:17'),
]
