U = 'src/utilities/qencode.c'
GROUPS = [
    dict(name='hex_encode', harness='qencode/hex.c', entry='h_hex_encode', weave={U: {'rules': 'weave/rules/qencode.json', 'funcs': ['qhex_encode']}},
         unwind=2, props=['C16', 'C11', 'C12'], functions=['qhex_encode'], units=[U], strength='proof', timeout=300),
]
