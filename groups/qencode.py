U = 'src/utilities/qencode.c'
R = 'weave/rules/qencode.json'

def eg(name, harness, entry, funcs, props, weave_funcs=None, **kw):
    d = dict(name=name, harness=harness, entry=entry, unwind=2, props=props, functions=funcs, units=[U],
             strength='proof', timeout=300, bound='none (any length up to 10^6)')
    if weave_funcs:
        d['weave'] = {U: {'rules': R, 'funcs': weave_funcs}}
    d.update(kw)
    return d

GROUPS = [
    eg('hex_encode', 'qencode/hex.c', 'h_hex_encode', ['qhex_encode'], ['C16', 'C11', 'C12'], ['qhex_encode']),
    eg('hex_decode', 'qencode/hex.c', 'h_hex_decode', ['qhex_decode'], ['C16', 'C17'], ['qhex_decode']),
    eg('hex_roundtrip', 'qencode/hex.c', 'h_hex_roundtrip', ['qhex_encode', 'qhex_decode'], ['C16'], ['qhex_encode', 'qhex_decode']),
    eg('hex_tables', 'qencode/hex.c', 'h_hex_tables', [], ['C16'], mode='unwind', bound='none (loop-free, all 256 byte values)'),
    eg('url_encode', 'qencode/url.c', 'h_url_encode', ['qurl_encode'], ['C16', 'C11', 'C12'], ['qurl_encode'], units=[U, 'src/internal/qinternal.c']),
    eg('url_decode', 'qencode/url.c', 'h_url_decode', ['qurl_decode', '_q_x2c'], ['C16', 'C17'], ['qurl_decode'], units=[U, 'src/internal/qinternal.c']),
    eg('url_byte_roundtrip', 'qencode/url.c', 'h_url_byte_roundtrip', ['qurl_encode', 'qurl_decode', '_q_x2c'], ['C16'], mode='unwind', unwind=6,
       units=[U, 'src/internal/qinternal.c'], bound='none for the per-byte claim: a single fully symbolic byte, all loops completely unwound (unwinding assertions on)'),
    eg('url_roundtrip_bounded', 'qencode/url.c', 'h_url_roundtrip_bounded', ['qurl_encode', 'qurl_decode', '_q_x2c'], ['C16'], mode='unwind', unwind=30,
       units=[U, 'src/internal/qinternal.c'], strength='bounded', bound='input strings of length URLN (quick 1..4, thorough 1..8), every byte value',
       instances=[dict(URLN=i) for i in range(1, 5)] + [dict(URLN=i, tier='thorough') for i in range(5, 9)]),
    eg('b64_decode_safe', 'qencode/b64.c', 'h_b64_decode_safe', ['qbase64_decode'], ['C17'], ['qbase64_decode'], units=[U, 'src/internal/qinternal.c']),
    eg('b64_encode_format', 'qencode/b64.c', 'h_b64_encode_format', ['qbase64_encode'], ['C16', 'C11', 'C12'], ['qbase64_encode'], units=[U, 'src/internal/qinternal.c']),
    eg('b64_roundtrip_bounded', 'qencode/b64.c', 'h_b64_roundtrip_bounded', ['qbase64_encode', 'qbase64_decode'], ['C16'], mode='unwind', unwind=20,
       units=[U, 'src/internal/qinternal.c'], strength='bounded', bound='input length B64N bytes (quick 1..6, thorough 1..12), every byte value',
       instances=[dict(B64N=i) for i in range(1, 7)] + [dict(B64N=i, tier='thorough') for i in range(7, 13)]),
    dict(name='makeword', harness='qencode/b64.c', entry='h_makeword', unwind=2, props=['C17', 'C12'], functions=['_q_makeword'],
         units=[U, 'src/internal/qinternal.c'], strength='proof', timeout=300, bound='none (any length up to 10^6)',
         weave={'src/internal/qinternal.c': {'rules': 'weave/rules/qinternal.json'}}),
]
