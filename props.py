PROPS = {}
def write_manifest():
    pass
