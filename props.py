"""per-property texts for MANIFEST.json / evidence; `qv manifest` regenerates MANIFEST.json from here + the group registry"""
import json
import os
import sys

ROOT = os.path.dirname(os.path.abspath(__file__))

COMMON_TRUST = [
    'cbmc 6.11.0 / goto-cc / goto-instrument and the SAT/SMT back ends (cadical, minisat, kissat, z3) are trusted',
    'machine model: LP64 little-endian x86-64 as compiled by goto-cc; alignment, strict aliasing and uninitialised reads are not checked',
    'allocator: CBMC malloc/calloc/free model (fresh exactly-sized objects, nondeterministic failure returning NULL); errno is an ordinary location',
    'induction over the length of the operation history (every operation is proved from an ARBITRARY state satisfying the representation invariant) is a meta-argument, not mechanised',
]
MEM_TRUST = 'memcpy/memmove/realloc are replaced by assumed contracts in unbounded proofs (stubs/qv_mem.h): region validity and memcpy non-overlap are obligations, the copy effect is assumed for arbitrary ghost byte offsets'
PTHREAD_TRUST = 'pthread_mutex_trylock/unlock are assumed contracts that maintain the ghost depth counter (stubs/qv_pthread.h); trylock is modelled as succeeding, so the forced-unlock branch of Q_MUTEX_ENTER after 5000 spins is not modelled'

PROPS = {
    'C10': dict(
        technique='CBMC contract proofs: predicate contracts (pre/post harness per function) on the real qvector.c with woven loop invariants, ghost element/byte index, memcpy/realloc contract stubs; unbounded in length and capacity',
        text='Every public qvector function is proved, for an arbitrary vector satisfying the representation invariant (any length/capacity up to 10^6, any contents, all growth policies, thread-safe or not), to realise exactly the ideal-array transition for an arbitrary ghost element: insertion/removal at the normalised index with the correct shift, refusal without effect, resize incl. 0 keeping the invariant (vector stays usable). Loops are closed by inductive loop contracts, so no unwinding bound is involved; element size is a per-instance constant (quick: 1,4; thorough: 1,2,3,4,8,64).',
        design_ref='DESIGN.md section 3 C10',
        note='Unbounded in num/max (cap 10^6 keeps int indexes meaningful); element size per instance from {1,2,3,4,8,64}; memcpy/memmove/realloc by assumed contract stubs; history quantifier by induction over operations from arbitrary invariant states (meta-argument); qvector_debug (fprintf) not covered.',
        trusted_base=COMMON_TRUST + [MEM_TRUST, PTHREAD_TRUST],
        unchecked=['qvector_debug is outside the claim (stdio formatting)', 'max*objsize overflow for capacities beyond 10^6 elements is outside the precondition'],
    ),
}


PROPS['C16'] = dict(
    technique='CBMC contract proofs with woven loop invariants and ghost index (hex: unbounded round trip; URL: unbounded output-structure and token-decoding contracts; Base64 encoder: unbounded format contract - exact allocation, alphabet, padding); bounded complete round trips for URL/Base64 at constant lengths',
    text='Hex: qhex_encode and qhex_decode are proved for every length (lower-case digits, exact pairs, both digit cases) and composed in one harness into an unbounded round trip decode(encode(x)) == x with exact length. URL: for every length the encoder output is proved to be the concatenation of per-byte encodings, a byte being literal only if URL-safe and otherwise %hh lower case; the decoder is proved token by token (+ to space, %hh either case) for every string; per-byte inverse over all 256 values; whole-string round trips for every string up to 4 (thorough 8) bytes. Base64: RFC 4648 alphabet, padding and round trip for every input of 1..6 (thorough 12) bytes, fully symbolic.',
    design_ref='DESIGN.md section 3 C16',
    note='Unbounded: hex encode/decode/round trip, URL encoder structure, URL decoder tokens, Base64 encoder output format (length 4*ceil(n/3), standard alphabet, = only as the final padding: two for n%3==1, one for n%3==2). Bounded stand-ins (labelled, never counted as proved): URL whole-string round trip (<= 4/8 bytes), Base64 format and round trip (<= 6/12 bytes). qparse_queries pair round trip is covered by the bounded parser group under C17/C16 once built; allocation is the CBMC model.',
    trusted_base=COMMON_TRUST + ['strdup/strlen in bounded groups are CBMC library models'],
    unchecked=['Base64/URL whole-string round trips beyond the stated lengths', 'query-string assembly is not a library function: only parsing is checked'],
)
PROPS['C17'] = dict(
    technique='CBMC contract proofs with woven loop invariants (cursor bounds, terminator intact, decreases clause) on the in-place decoders and _q_makeword for strings of every length; bounded stand-ins for the parsers',
    text='qurl_decode, qhex_decode, qbase64_decode and _q_makeword are proved memory-safe and terminating for EVERY NUL-terminated input of any length (exactly-sized heap buffer, arbitrary bytes): read/write cursors never leave the buffer, the terminator stays intact, the result is never longer than the input, each loop has a decreasing measure.',
    design_ref='DESIGN.md section 3 C17',
    note='Decoders and _q_makeword: unbounded. Parsers (qparse_queries, INI, Apache style): bounded stand-ins where built (see evidence); variable-expansion termination is a recorded finding if listed in known_findings.txt.',
    trusted_base=COMMON_TRUST,
    unchecked=['parser inputs longer than the stated bounds'],
)
PROPS['C18'] = dict(
    technique='CBMC contract proofs: woven loop contracts with a ghost reference accumulator (FNV-1 32/64, every length); MD5Transform == RFC 1321 compression for all inputs by z3; bounded complete equivalence with independent references at constant lengths (Murmur3, MD5 padding)',
    text='FNV-1 32/64: for every length the real loop is proved to consume exactly the n given bytes (NULs included, nothing beyond the buffer) and to equal the published recurrence h = (h*prime) xor byte (the shift-add form is proved equal to the multiply for every word inside the loop contract). Murmur3 x86_32/x64_128: for every length the body is proved to read exactly the little-endian blocks of the input in order and nothing outside the buffer; value equality with the published algorithm is decided completely for each length 1..130 with symbolic content (z3). MD5: MD5Transform equals an independently written table-driven RFC 1321 compression for all 2^128 x 2^512 inputs; Init constants; Update/Pad/Final feed exactly the RFC padded message to the compression function in order for every message length 1..130.',
    design_ref='DESIGN.md section 3 C18',
    note='Unbounded: FNV-1 32/64 values, Murmur read pattern/safety, MD5 compression. Bounded (constant length 1..130, arbitrary content): Murmur values, MD5 padding/buffering with the compression function replaced by a recording stub. qhashmd5_file (POSIX I/O) and alignment independence are not covered; composition "compression lemma + padded block sequence => MD5" is a meta-argument.',
    trusted_base=COMMON_TRUST + ['z3 4.8.12 as SMT back end for the multiplication-heavy equivalences', 'unaligned 32/64-bit loads are treated as defined little-endian loads'],
    unchecked=['qhashmd5_file', 'messages longer than 130 bytes for Murmur value equality and MD5 padding', 'nbytes >= 2^32 (qhashmd5 truncates to unsigned int)'],
)
PROPS['C19'] = dict(
    technique='CBMC contract checks on the real qstring.c: UNBOUNDED predicate contracts with woven loop contracts (invariant + decreases), ghost index and strlen/memmove contract stubs for qstrupper/qstrlower/qstrtrim/qstrtrim_head/qstrtrim_tail/qstrrev/qstrunchar/qstrcpy/qstrncpy (strings of any length); bounded stand-in (every buffer of a constant size against an executable reference, loops fully unwound) for qstrreplace/qstrtok/qstrgets/qstrdup_between/qmemdup and as a second opinion for the others',
    text='PROOF (any length, arbitrary bytes; groups str_upper_lower, str_trim, str_trim_head, str_trim_tail, str_rev, str_unchar, str_copy): the in-place routines are verified against their documented function with one arbitrary ghost position standing for every character - exactly a-z/A-Z converted, exactly the maximal prefix/suffix of blank/TAB/CR/LF removed and nothing else, character k moved to len-1-k, exactly the matching first/last character stripped or refusal with the string untouched, copy always terminated inside an exactly size-byte destination with min(n,size-1) leading bytes; every loop closed by an inductive invariant and a decreasing measure, no write in front of or behind the buffer. BOUNDED: qstrtrim/_head/_tail, qstrupper/lower, qstrrev, qstrunchar, qstrcpy/qstrncpy (every size 0..n+2), qstrgets, qstrreplace (4 modes), qstrtok, qstrdup_between and qmemdup are compared with independently written reference functions for EVERY buffer content of the stated size (all byte values, hence every shorter string, blanks, delimiters, quotes, bytes >= 0x80) with all bounds/pointer obligations on exactly-sized buffers.',
    design_ref='DESIGN.md section 3 C19',
    note='Unbounded for the seven routines named above (strlen and memmove enter through assumed contract stubs: strlen returns the terminator index of the string under test, memmove obligations = regions valid, effect = exact copy at an arbitrary ghost offset). Bounded stand-in for the rest (strings <= 6/8 bytes; replace: source <= 3/5, token <= 2, word <= 2); labelled bounded, not counted as proved. Trailing empty field after a final delimiter is not returned by qstrtok (code behaviour, taken as the documented one). qstrtokenizer, qstrdupf/qstrcatf (vsnprintf) are outside the claim. The string under test sits one byte into its allocation because CBMC cannot represent the one-before-start pointer the backward scans form without dereferencing; the guard byte is arbitrary and asserted unchanged.',
    trusted_base=COMMON_TRUST + ['strlen/memmove/strcpy/strncmp/strncpy: CBMC library models; strstr: executable model in the harness'],
    unchecked=['strings longer than the stated bounds', 'qstrtokenizer, qstrdupf, qstrcatf, qstr_comma_number, qstrunique'],
)

LIST_BOUND = 'every list of exactly LN elements (quick LN 0..3, thorough 0..5), element sizes 1..2 symbolic, arbitrary bytes, every index in [-LN-3, LN+3], every limit 0..LN+2'
PROPS['C09'] = dict(
    technique='unbounded refusal lemma (list of any length, every int index: out-of-range access/removal/insertion and insertion into a full list are refused with the documented errno, change nothing and touch no element - element pointers are poison); CBMC bounded contract checks on closed lists: every qlist operation from every list of a constant length, compared with the ideal sequence by walking the real links; queue/stack/grow wrappers',
    text='For every doubly linked list of LN elements (built directly, all element sizes/bytes/limits symbolic) each qlist operation is shown to realise exactly the ideal-sequence transition: insertion/access/pop/removal at the front- or back-relative index, refusal (ERANGE/ENOBUFS/EINVAL) without any effect, exact count and byte total, reverse, forward walk, toarray/tostring (trailing-NUL rule), clear, setsize; queue FIFO, stack LIFO and grow concatenation through the real wrappers. Every state satisfying the representation invariant is covered for the stated lengths, so the history quantifier is discharged by induction over operations.',
    design_ref='DESIGN.md section 3 C09',
    note='Unbounded: the refusal paths (group list_refusal). Everything else: bounded stand-in in list length (<= 3 quick, <= 5 thorough) and element size (<= 2 bytes); unbounded in history by the invariant argument (meta). qlist_debug (stdio) not covered.',
    trusted_base=COMMON_TRUST + [PTHREAD_TRUST, 'memcpy on constant-size elements: CBMC library model'],
    unchecked=['lists longer than 5 elements, elements larger than 2 bytes', 'qlist_debug, qqueue/qstack *str/*int convenience wrappers'],
)

HOSTS = 'Hosts so far: qvector (unbounded contract proofs), qlist/qqueue/qstack/qgrow (closed lists, bounded in length), string/encoding/hash leaf functions; see coverage.groups in the evidence file for the exact list of this run.'
PROPS['C11'] = dict(
    technique='CBMC-generated safety obligations (pointer validity, bounds, freed/dead objects, signed overflow, shifts, division) plus memcpy non-overlap and memory-leak obligations inside every contract harness of the host properties',
    text='Memory safety is the conjunction of the safety obligations CBMC generates for the real code in every contract harness (they hold for ALL inputs admitted by the harness, unbounded where the host harness is) with exactly-sized heap objects for all caller data, the non-overlap obligation of the memcpy contract, and memory-leak obligations on harnesses that release the container. ' + HOSTS,
    design_ref='DESIGN.md section 3 C11',
    note='As strong as the host harness: unbounded for the vector and the leaf functions, bounded (stated per group) for linked structures. Alignment, strict aliasing, uninitialised reads and out-of-object pointer arithmetic without dereference are not checked by CBMC.',
    trusted_base=COMMON_TRUST + [MEM_TRUST, PTHREAD_TRUST],
    unchecked=['containers whose harnesses are not built yet are not covered (see not_applicable / evidence)', 'data races (C13)'],
)
PROPS['C12'] = dict(
    technique='ownership postconditions in the contract harnesses: stored and returned buffers are fresh objects distinct from the caller buffer / internal buffer (__CPROVER_same_object, object size), byte-equal for an arbitrary ghost index; caller buffer scribbled after insertion',
    text='For every insertion the container is shown to hold the element bytes in an object different from the caller buffer (which is then overwritten in the harness), and every copying accessor (newmem, pop, toarray, walk copies, encoders, qmemdup) returns a fresh exactly-sized object with exactly the stored bytes. ' + HOSTS,
    design_ref='DESIGN.md section 3 C12',
    note='Inherits the bounds of the host harness. Independence after later mutations follows from the frame facts (operations assign/free only objects the container owns) - meta-argument.',
    trusted_base=COMMON_TRUST + [MEM_TRUST],
    unchecked=['containers whose harnesses are not built yet'],
)
PROPS['C14'] = dict(
    technique='ghost lock-depth counter maintained by assumed pthread contracts; postcondition depth_on_return == depth_on_entry on every public function, all paths incl. refusal and allocation failure (CBMC malloc may fail)',
    text='Every public function of the covered lockable containers is verified, from every state of its harness and under nondeterministic allocation failure, to return with the ghost lock depth it was entered with (entry depth 0..2: the caller may already hold the recursive lock). ' + HOSTS,
    design_ref='DESIGN.md section 3 C14',
    note='Path property: unbounded for the vector, closed structures for the linked containers; qlog write/duplicate/flush/free/constructor with stdio/time as assumed contracts (writef only formats and calls write). pthread semantics assumed (trylock succeeds, recursive mutex).',
    trusted_base=COMMON_TRUST + [PTHREAD_TRUST],
    unchecked=['qlog writef (vsnprintf)', 'string-key convenience wrappers (put/get/remove by C string, *str/*int variants)'],
)
PROPS['C15'] = dict(
    technique='nondeterministic allocator failure at every allocation site inside one symbolic run (CBMC malloc-may-fail); postcondition: failure reported => observable state unchanged and invariant holds; memory-leak obligations',
    text='Every allocating operation of the covered containers is verified with each malloc/calloc/realloc call free to fail independently: the call either succeeds with the normal contract or reports failure (ENOMEM) with contents, counts and invariant exactly as before; constructors leak nothing on failure. ' + HOSTS,
    design_ref='DESIGN.md section 3 C15',
    note='Inherits the bounds of the host harness; all failure combinations of the allocations inside one call are covered by the symbolic run.',
    trusted_base=COMMON_TRUST + [MEM_TRUST],
    unchecked=['containers whose harnesses are not built yet'],
)

PROPS['C05'] = dict(
    technique='CBMC bounded contract checks on closed hash tables: every operation from every table of a constant range/size with an uninterpreted hash function, compared with the ideal map for every key of the alphabet by walking the real chains',
    text='For every table with range 1..3 and 0..4 entries over an alphabet of four keys (hash values uninterpreted, so keys sharing a chain, equal hashes with different names and head/middle/tail positions all occur) put/putstr, get/getstr, remove, size, clear and the getnext walk are shown to realise exactly the ideal-map transition: last value and length per key, removal of exactly that key, exact count, each key once in a walk; the representation invariant (node in the chain of its hash, names distinct, chains acyclic, num exact) is re-established by every operation, so the history quantifier is discharged by induction over operations.',
    design_ref='DESIGN.md section 3 C05',
    note='Bounded stand-in (range <= 3, <= 4 entries, one-character keys, values <= 2 bytes); unbounded in history (meta-argument). The hash function is an assumed deterministic function of the key (its own correctness is C18). putint/getint/putstrf (snprintf/atoll/vsnprintf) and qhashtbl_debug are outside the claim.',
    trusted_base=COMMON_TRUST + [PTHREAD_TRUST, 'strcmp/strdup/strlen/memcpy on tiny constant-size strings: CBMC library models', 'qhashmurmur3_32 replaced by an uninterpreted deterministic function inside this harness'],
    unchecked=['ranges above 3, more than 4 entries, longer keys', 'putint/getint/putstrf formatting'],
)

TREE_BOUND = 'every LLRB 2-3-4 tree of height <= 3 (<= 7 keys; all 18 coloured shapes enumerated as instances) with one-byte keys under a rank comparator, values 0..2 bytes; put/remove: every (tree, operation key) pair with canonical keys'
TREE_TRUST = COMMON_TRUST + [PTHREAD_TRUST, 'user comparator = rank of the first key byte (any total order on a finite key set is such a rank); the default qtreetbl_byte_cmp is not separately proved to be a total order', 'put/remove instances use canonical keys 1,3,5,.. and a constant operation key: sound because the tree code inspects keys only through tbl->compare (symmetry argument, not mechanised)']
PROPS['C01'] = dict(
    technique='window induction for the recursive insertion (UNBOUNDED in tree size): the real put_obj is verified on a window of real nodes over summarised subtrees with its recursive self-call replaced by the induction hypothesis (contract stub), postcondition by kind of argument, ghost probe key for the map view; qtreetbl_putobj verified against that contract; for remove/get/min/max/clear CBMC bounded contract checks on closed trees: every LLRB tree of height <= 3 enumerated by shape and colouring, every operation key, post-state walked through the real pointers by independent spec functions (probe key for the untouched part of the map)',
    text='PROOF for put (groups tree_win_step/null/putobj_top): for a tree of ANY size putobj stores a private copy of key and value, replaces the value of an equal key without changing the count, leaves membership of every other key (probe key) unchanged, keeps size == number of keys, also when any allocation inside fails (then: ENOMEM, nothing added). BOUNDED for the rest: For every valid tree of height <= 3 and every operation key (present, between keys, below the minimum, above the maximum) putobj/removeobj/getobj/size/find_min/find_max/clear are shown to realise the ideal sorted-map transition: value and length most recently put, replacement without changing the count, removal of exactly that key (absent key: ENOENT and unchanged key set), every other key untouched (symbolic probe key), exact size, least/greatest key. The post-state satisfies the same invariant the pre-state was drawn from, so histories are covered by induction over operations within the height bound.',
    design_ref='DESIGN.md section 3 C01',
    note='put: unbounded (structural induction over the subtree is the meta-argument, the step is machine-checked; one-byte keys under a rank comparator, 2-byte values). remove/get/find_min/find_max/clear: bounded stand-in in tree height (<= 3 before the operation). String-key entry points (put/get/remove = obj variants with strlen+1) and putstrf are outside the claim.',
    trusted_base=TREE_TRUST,
    unchecked=['trees higher than 3', 'qtreetbl_put/get/remove string wrappers, putstrf, debug'],
)
PROPS['C02'] = dict(
    technique='window induction for put_obj (UNBOUNDED in tree size: LLRB 2-3-4 validity, equal black height and key range as postcondition by kind of argument, recursive call = induction hypothesis); DFCC-enforced function contracts (requires/ensures/assigns, callee contracts replacing callee bodies) on the loop-free rotation/flip helpers; closed-tree contracts with the LLRB representation invariant as pre- and postcondition (search order, black root, no red-red, equal black height, no lone right red), checker-vs-invariant equivalence on ALL coloured trees, comparison-count bound via a ghost counter',
    text='PROOF: after putobj on a valid tree of ANY size (successful, replacing, or failing on allocation after 4-nodes were already split) the tree is a valid LLRB 2-3-4 tree with a black root and unchanged or +1 black height. BOUNDED: After every put/remove/get (incl. removal of an absent key, replacement, allocation failure) on every tree of height <= 3 the real tree satisfies the full LLRB 2-3-4 invariant; qtreetbl_check() == 0 is shown equivalent to the red-black part of the invariant for EVERY coloured tree of height <= 3 (valid or not); a lookup is shown to call the comparator at most 2*bh times with 2^bh <= n+1.',
    design_ref='DESIGN.md section 3 C02',
    note='put: unbounded window induction; remove and the lookups: bounded stand-in in tree height (<= 3). The inductive lemmas cnt >= 2^bh - 1 / height <= 2*bh are checked on the enumerated trees, not for arbitrary height.',
    trusted_base=TREE_TRUST,
    unchecked=['trees higher than 3'],
)
PROPS['C03'] = dict(
    technique='closed-tree walk contract from ANY state satisfying the traversal-state invariant INV_T (no node stamp newer than the table stamp) with every parent pointer arbitrary; INV_T shown inductive for every operation; step budget by unwinding assertions',
    text='For every tree of height <= 3, every stamp assignment with INV_T (all 256 table stamps incl. the wrap-around), and every assignment of stale parent pointers, a zero-cursor getnext walk returns exactly the in-order key sequence with current values and then the end; INV_T holds after every step (abandonment point) and is preserved by put/remove/get/find_nearest/clear/walks, so every history of complete or abandoned walks, insertions, deletions and searches stays inside the precondition.',
    design_ref='DESIGN.md section 3 C03',
    note='Bounded in tree height (quick <= 2, thorough <= 3); unbounded in history via INV_T (meta-argument). Termination: loop bounds 2h+3 with unwinding assertions.',
    trusted_base=TREE_TRUST,
    unchecked=['trees higher than 3'],
)
PROPS['C04'] = dict(
    technique='closed-tree contract of qtreetbl_find_nearest from any INV_T state with arbitrary stale parent pointers on every node incl. the root; floor semantics computed from the key set only; termination as unwinding-assertion step budget; continuation walk visits every key once',
    text='For every tree of height <= 3, every probe byte and every assignment of stale parent pointers the search terminates within the step budget and returns the equal key, else the greatest smaller, else the smallest (ENOENT on empty); the expected answer is computed from the key set alone (history independence); when no node carries the current stamp, continuing with getnext visits every key exactly once and ends.',
    design_ref='DESIGN.md section 3 C04',
    note='Bounded in tree height (quick <= 2, thorough <= 3).',
    trusted_base=TREE_TRUST,
    unchecked=['trees higher than 3', 'dangling (freed) parent pointers are not modelled separately: any live node or NULL'],
)
PROPS['C06'] = dict(
    technique='CBMC bounded contract checks on the static hash table: every well-formed slot structure of a 2-slot table enumerated as instances (value bytes symbolic), put with values on both sides of the slot boundaries, structural invariant + ideal-map view + exact accounting as postcondition; memcpy of value blocks by ghost-offset contract',
    text='For every well-formed structure of a 2-slot table (leading keys, collision keys, extension blocks, free slots, all home-index patterns under an uninterpreted placement hash) put_by_obj (values of 1/33/99 bytes on the 28 structures without a free slot - refusal and replace paths; 1-byte values on the 5 structures with a free slot - the success paths; multi-slot stores into free slots exhaust the memory of the SAT solver and are not admitted) is shown to succeed exactly when a slot is free and the value fits into free plus released slots, to store the exact length in ceil-many slots with the given bytes, to keep every other key unchanged, to leave its own key unchanged or absent on ENOBUFS, and to keep used-slot/key counters exact; get/remove by key on two structures (thorough).',
    design_ref='DESIGN.md section 3 C06',
    note='Bounded stand-in: capacity 2 slots, in-slot one-byte keys, alphabet of 3 keys; keys longer than 16 bytes (MD5 path), getnext/clear and put on capacities >= 3 are NOT covered; remove_by_idx is covered on all 2-slot structures and on the 3-slot structures with a collision leader and an extension block (the harnesses exist but do not finish within the budgets of this sandbox); value bytes are claimed for an arbitrary ghost offset per block.',
    trusted_base=COMMON_TRUST + ['qhashmurmur3_32/qhashmd5 replaced by deterministic stand-ins inside this harness', 'memcpy of value blocks: assumed ghost-offset contract; get_slots(): typed contract stub whose equality with the real byte arithmetic is an obligation at every call; malloc of result buffers: fixed-capacity object with the requested size checked at every copy'],
    unchecked=['put/get on capacity > 2', 'long keys', 'getnext, clear, debug'],
)
PROPS['C07'] = dict(
    technique='well-formedness predicate INV_wf as postcondition of every covered operation; init/attach contract; 2-run relocation contract (same put through a handle on a byte copy at another address yields the same result, view and counters)',
    text='qhasharr() is shown to initialise the whole region as an empty well-formed table and, with memsize 0, to attach without writing; every covered operation re-establishes INV_wf (slot kinds, links and back links, collision counts, header counters) on the exactly-sized user region; for every 2-slot structure the same put through a second handle on a byte-for-byte copy at a different address returns the same result and leaves the same keys, values and counters.',
    design_ref='DESIGN.md section 3 C07',
    note='Bounded as C06 (2 slots). "Never written outside the region": the region is one exactly-sized object, every access carries a bounds obligation.',
    trusted_base=COMMON_TRUST + ['as C06'],
    unchecked=['capacity > 2; alignment of the relocation address'],
)
PROPS['C08'] = dict(
    technique='CBMC bounded contract checks on closed list tables: every table of a constant size under all 16 option combinations (symbolic), compared with the ideal ordered multimap by walking the real links',
    text='For every list table of 0..3 entries with names from {a, A, b}, every option combination and every value, put (append/prepend, unique replaces all equal keys incl. case-insensitive equality), get (first match in lookup direction), getmulti and name-filtered walks (all matches in lookup order), remove (all matches, exact count), removal of the current entry during a walk, size, stable ascending sort and clear are shown to realise the ideal multimap transition; the constructor maps the option word to the behaviour switches.',
    design_ref='DESIGN.md section 3 C08',
    note='Bounded stand-in (<= 2 entries quick, 3 thorough). NOT covered: save/load round trip (file and printf-family I/O have no model); putint/putstrf formatting.',
    trusted_base=COMMON_TRUST + [PTHREAD_TRUST, 'strcmp/strcasecmp/strdup/strlen: CBMC library models; qhashmurmur3_32 replaced by a deterministic stand-in'],
    unchecked=['save/load', 'tables with more than 3 entries, longer names'],
)
PROPS['C13'] = dict(
    technique='sequential lock-discipline reduction as contract overlay: shared container fields hold poison whenever the ghost lock depth is 0 (revealed at first acquisition, hidden again at final release); every sequential contract must still hold',
    text='For the thread-safe vector (all operations, unbounded contracts), list (insert, copying get / pop / remove, toarray/tostring), list table (put, get, getmulti, remove), hash table (put, get, remove) and tree table (put, remove, get, find_min/max, clear) the operation is shown to touch shared state only inside ONE critical section: with the shared fields replaced by arbitrary values whenever the ghost lock depth is 0, every postcondition and every safety obligation of the sequential contract still holds, at most one outermost acquisition happens, and the lock is released on return. Linearizability then follows from the standard reduction (all shared accesses of an operation inside one critical section of one mutex).',
    design_ref='DESIGN.md section 3 C13',
    note='No interleaving is explored: this decides the lock discipline, the reduction theorem and POSIX mutex semantics are assumed. Unlocked single-word reads such as size(), and the tree walk (documented to run under the caller\'s lock) are outside the overlay; bounds of the host harnesses apply.',
    trusted_base=COMMON_TRUST + [PTHREAD_TRUST, 'reduction theorem (operations whose shared accesses lie in one critical section are atomic): assumed, not mechanised'],
    unchecked=['actual interleavings / data races on fields not poisoned', 'getnext walks, clear/free of list and hash table, qlog'],
)

NOT_APPLICABLE = {
    'C20': 'needs a second, reference parser as specification and a proof that two tokenisers agree on every document; CBMC has no usable model of the fgets/vsnprintf/realloc-based code and a bounded stand-in (~10 symbolic bytes) cannot hold one nested section, so nothing the property is about would be decided (DESIGN.md section 4)',
}

NOT_YET = 'not claimed yet: no obligation group has been built for this property at this commit'


def write_manifest():
    sys.path.insert(0, os.path.join(ROOT, 'lib'))
    import qvlib
    groups = qvlib.load_groups()
    allp = [json.loads(l)['id'] for l in open(os.path.join(ROOT, 'properties.jsonl'))]
    claimed = [p for p in allp if p in PROPS and any(p in g['props'] for g in groups)]
    checks = []
    for p in claimed:
        m = dict(PROPS[p])
        mine = [g for g in groups if p in g['props']]
        nproof = sum(1 for g in mine if g['strength'] == 'proof')
        if nproof == 0:
            m['text'] = 'BOUNDED STAND-IN THROUGHOUT (no unbounded obligation group; every obligation is discharged for all inputs within the stated bounds only). ' + m['text']
        elif nproof < len(mine):
            m['text'] = 'MIXED: %d obligation groups are unbounded proofs, %d are bounded stand-ins (listed separately in the evidence). ' % (nproof, len(mine) - nproof) + m['text']
        checks.append({
            'property_id': p,
            'quick_cmd': 'bin/qv check %s --tier quick' % p,
            'thorough_cmd': 'bin/qv check %s --tier thorough' % p,
            'evidence_file': '/verif/evidence/%s.json' % p,
            'replay_cmd_template': 'bin/qv replay {path}',
            'engine': 'qv-cbmc-contracts',
            'level_claimed': {'category': 'proof', 'text': m['text'], 'design_ref': m.get('design_ref', 'DESIGN.md')},
            'level_note': m['note'],
            'technique': m['technique'],
        })
    na = []
    for p in allp:
        if p in claimed:
            continue
        na.append({'property_id': p, 'reason': NOT_APPLICABLE.get(p, NOT_YET)})
    man = {
        'version': 1,
        'setup_cmd': 'bin/setup',
        'hooks': {
            'guard': 'QLIBC_VERIF',
            'enable': 'no hooks: contracts are attached from /verif (harness includes the real source; loop contracts are woven into a scratch copy on every run)',
            'baseline_off_cmd': 'cmake -G Ninja -B /repo/_build -S /repo >/dev/null && cmake --build /repo/_build >/dev/null && ctest --test-dir /repo/_build -j8 --timeout 900',
            'source_commits': [],
            'add_only': True,
        },
        'engines': [{'name': 'qv-cbmc-contracts', 'path': 'bin/qv', 'serves_properties': claimed,
                     'kind_free_text': 'contract-based deductive verification of the real C code with CBMC 6.11 (predicate contracts + woven loop contracts + DFCC function contracts), native ASan/UBSan replay of counterexamples'}],
        'checks': checks,
        'not_applicable': na,
        'notes': 'All checks are `bin/qv check <id> --tier quick|thorough`; exit 0 held, 1 VIOLATION, 2 UNDECIDED (timeout/tool problem, never reported as violation). known_findings.txt lists recorded defects and fixed: entries.',
    }
    json.dump(man, open(os.path.join(ROOT, 'MANIFEST.json'), 'w'), indent=1)
    print('MANIFEST.json: %d claimed, %d not claimed' % (len(claimed), len(na)))
