"""per-property texts for MANIFEST.json / evidence; `qv manifest` regenerates MANIFEST.json from here + the group registry"""
import json
import os
import sys

ROOT = os.path.dirname(os.path.abspath(__file__))

COMMON_TRUST = [
    'cbmc 6.11.0 / goto-cc / goto-instrument and the SAT/SMT back ends (cadical, minisat, kissat, z3) are trusted',
    'machine model: LP64 little-endian x86-64 as compiled by goto-cc; alignment, strict aliasing and uninitialised reads are not checked',
    'allocator: CBMC malloc/calloc/free model (fresh exactly-sized objects, nondeterministic failure returning NULL); errno is an ordinary location',
    'induction over the length of the operation history (every operation is proved from an ARBITRARY state satisfying the representation invariant) is a meta-argument, not mechanised',
]
MEM_TRUST = 'memcpy/memmove/realloc are replaced by assumed contracts in unbounded proofs (stubs/qv_mem.h): region validity and memcpy non-overlap are obligations, the copy effect is assumed for arbitrary ghost byte offsets'
PTHREAD_TRUST = 'pthread_mutex_trylock/unlock are assumed contracts that maintain the ghost depth counter (stubs/qv_pthread.h); trylock is modelled as succeeding, so the forced-unlock branch of Q_MUTEX_ENTER after 5000 spins is not modelled'

PROPS = {
    'C10': dict(
        technique='CBMC contract proofs: predicate contracts (pre/post harness per function) on the real qvector.c with woven loop invariants, ghost element/byte index, memcpy/realloc contract stubs; unbounded in length and capacity',
        text='Every public qvector function is proved, for an arbitrary vector satisfying the representation invariant (any length/capacity up to 10^6, any contents, all growth policies, thread-safe or not), to realise exactly the ideal-array transition for an arbitrary ghost element: insertion/removal at the normalised index with the correct shift, refusal without effect, resize incl. 0 keeping the invariant (vector stays usable). Loops are closed by inductive loop contracts, so no unwinding bound is involved; element size is a per-instance constant (quick: 1,4; thorough: 1,2,3,4,8,64).',
        design_ref='DESIGN.md section 3 C10',
        note='Unbounded in num/max (cap 10^6 keeps int indexes meaningful); element size per instance from {1,2,3,4,8,64}; memcpy/memmove/realloc by assumed contract stubs; history quantifier by induction over operations from arbitrary invariant states (meta-argument); qvector_debug (fprintf) not covered.',
        trusted_base=COMMON_TRUST + [MEM_TRUST, PTHREAD_TRUST],
        unchecked=['qvector_debug is outside the claim (stdio formatting)', 'max*objsize overflow for capacities beyond 10^6 elements is outside the precondition'],
    ),
}

NOT_APPLICABLE = {
    'C20': 'needs a second, reference parser as specification and a proof that two tokenisers agree on every document; CBMC has no usable model of the fgets/vsnprintf/realloc-based code and a bounded stand-in (~10 symbolic bytes) cannot hold one nested section, so nothing the property is about would be decided (DESIGN.md section 4)',
}

NOT_YET = 'not claimed yet: no obligation group has been built for this property at this commit'


def write_manifest():
    sys.path.insert(0, os.path.join(ROOT, 'lib'))
    import qvlib
    groups = qvlib.load_groups()
    allp = [json.loads(l)['id'] for l in open(os.path.join(ROOT, 'properties.jsonl'))]
    claimed = [p for p in allp if p in PROPS and any(p in g['props'] for g in groups)]
    checks = []
    for p in claimed:
        m = PROPS[p]
        checks.append({
            'property_id': p,
            'quick_cmd': 'bin/qv check %s --tier quick' % p,
            'thorough_cmd': 'bin/qv check %s --tier thorough' % p,
            'evidence_file': '/verif/evidence/%s.json' % p,
            'replay_cmd_template': 'bin/qv replay {path}',
            'engine': 'qv-cbmc-contracts',
            'level_claimed': {'category': 'proof', 'text': m['text'], 'design_ref': m.get('design_ref', 'DESIGN.md')},
            'level_note': m['note'],
            'technique': m['technique'],
        })
    na = []
    for p in allp:
        if p in claimed:
            continue
        na.append({'property_id': p, 'reason': NOT_APPLICABLE.get(p, NOT_YET)})
    man = {
        'version': 1,
        'setup_cmd': 'bin/setup',
        'hooks': {
            'guard': 'QLIBC_VERIF',
            'enable': 'no hooks: contracts are attached from /verif (harness includes the real source; loop contracts are woven into a scratch copy on every run)',
            'baseline_off_cmd': 'cmake -G Ninja -B /repo/_build -S /repo >/dev/null && cmake --build /repo/_build >/dev/null && ctest --test-dir /repo/_build -j8 --timeout 900',
            'source_commits': [],
            'add_only': True,
        },
        'engines': [{'name': 'qv-cbmc-contracts', 'path': 'bin/qv', 'serves_properties': claimed,
                     'kind_free_text': 'contract-based deductive verification of the real C code with CBMC 6.11 (predicate contracts + woven loop contracts + DFCC function contracts), native ASan/UBSan replay of counterexamples'}],
        'checks': checks,
        'not_applicable': na,
        'notes': 'All checks are `bin/qv check <id> --tier quick|thorough`; exit 0 held, 1 VIOLATION, 2 UNDECIDED (timeout/tool problem, never reported as violation). known_findings.txt lists recorded defects and fixed: entries.',
    }
    json.dump(man, open(os.path.join(ROOT, 'MANIFEST.json'), 'w'), indent=1)
    print('MANIFEST.json: %d claimed, %d not claimed' % (len(claimed), len(na)))
