"""per-property texts for MANIFEST.json / evidence; `qv manifest` regenerates MANIFEST.json from here + the group registry"""
import json
import os
import sys

ROOT = os.path.dirname(os.path.abspath(__file__))

COMMON_TRUST = [
    'cbmc 6.11.0 / goto-cc / goto-instrument and the SAT/SMT back ends (cadical, minisat, kissat, z3) are trusted',
    'machine model: LP64 little-endian x86-64 as compiled by goto-cc; alignment, strict aliasing and uninitialised reads are not checked',
    'allocator: CBMC malloc/calloc/free model (fresh exactly-sized objects, nondeterministic failure returning NULL); errno is an ordinary location',
    'induction over the length of the operation history (every operation is proved from an ARBITRARY state satisfying the representation invariant) is a meta-argument, not mechanised',
]
MEM_TRUST = 'memcpy/memmove/realloc are replaced by assumed contracts in unbounded proofs (stubs/qv_mem.h): region validity and memcpy non-overlap are obligations, the copy effect is assumed for arbitrary ghost byte offsets'
PTHREAD_TRUST = 'pthread_mutex_trylock/unlock are assumed contracts that maintain the ghost depth counter (stubs/qv_pthread.h); trylock is modelled as succeeding, so the forced-unlock branch of Q_MUTEX_ENTER after 5000 spins is not modelled'

PROPS = {
    'C10': dict(
        technique='CBMC contract proofs: predicate contracts (pre/post harness per function) on the real qvector.c with woven loop invariants, ghost element/byte index, memcpy/realloc contract stubs; unbounded in length and capacity',
        text='Every public qvector function is proved, for an arbitrary vector satisfying the representation invariant (any length/capacity up to 10^6, any contents, all growth policies, thread-safe or not), to realise exactly the ideal-array transition for an arbitrary ghost element: insertion/removal at the normalised index with the correct shift, refusal without effect, resize incl. 0 keeping the invariant (vector stays usable). Loops are closed by inductive loop contracts, so no unwinding bound is involved; element size is a per-instance constant (quick: 1,4; thorough: 1,2,3,4,8,64).',
        design_ref='DESIGN.md section 3 C10',
        note='Unbounded in num/max (cap 10^6 keeps int indexes meaningful); element size per instance from {1,2,3,4,8,64}; memcpy/memmove/realloc by assumed contract stubs; history quantifier by induction over operations from arbitrary invariant states (meta-argument); qvector_debug (fprintf) not covered.',
        trusted_base=COMMON_TRUST + [MEM_TRUST, PTHREAD_TRUST],
        unchecked=['qvector_debug is outside the claim (stdio formatting)', 'max*objsize overflow for capacities beyond 10^6 elements is outside the precondition'],
    ),
}


PROPS['C16'] = dict(
    technique='CBMC contract proofs with woven loop invariants and ghost index (hex: unbounded round trip; URL: unbounded output-structure and token-decoding contracts); bounded complete round trips for URL/Base64 at constant lengths',
    text='Hex: qhex_encode and qhex_decode are proved for every length (lower-case digits, exact pairs, both digit cases) and composed in one harness into an unbounded round trip decode(encode(x)) == x with exact length. URL: for every length the encoder output is proved to be the concatenation of per-byte encodings, a byte being literal only if URL-safe and otherwise %hh lower case; the decoder is proved token by token (+ to space, %hh either case) for every string; per-byte inverse over all 256 values; whole-string round trips for every string up to 4 (thorough 8) bytes. Base64: RFC 4648 alphabet, padding and round trip for every input of 1..6 (thorough 12) bytes, fully symbolic.',
    design_ref='DESIGN.md section 3 C16',
    note='Unbounded: hex encode/decode/round trip, URL encoder structure, URL decoder tokens. Bounded stand-ins (labelled, never counted as proved): URL whole-string round trip (<= 4/8 bytes), Base64 format and round trip (<= 6/12 bytes). qparse_queries pair round trip is covered by the bounded parser group under C17/C16 once built; allocation is the CBMC model.',
    trusted_base=COMMON_TRUST + ['strdup/strlen in bounded groups are CBMC library models'],
    unchecked=['Base64/URL whole-string round trips beyond the stated lengths', 'query-string assembly is not a library function: only parsing is checked'],
)
PROPS['C17'] = dict(
    technique='CBMC contract proofs with woven loop invariants (cursor bounds, terminator intact, decreases clause) on the in-place decoders and _q_makeword for strings of every length; bounded stand-ins for the parsers',
    text='qurl_decode, qhex_decode, qbase64_decode and _q_makeword are proved memory-safe and terminating for EVERY NUL-terminated input of any length (exactly-sized heap buffer, arbitrary bytes): read/write cursors never leave the buffer, the terminator stays intact, the result is never longer than the input, each loop has a decreasing measure.',
    design_ref='DESIGN.md section 3 C17',
    note='Decoders and _q_makeword: unbounded. Parsers (qparse_queries, INI, Apache style): bounded stand-ins where built (see evidence); variable-expansion termination is a recorded finding if listed in known_findings.txt.',
    trusted_base=COMMON_TRUST,
    unchecked=['parser inputs longer than the stated bounds'],
)
PROPS['C18'] = dict(
    technique='CBMC contract proofs: woven loop contracts with a ghost reference accumulator (FNV-1 32/64, every length); MD5Transform == RFC 1321 compression for all inputs by z3; bounded complete equivalence with independent references at constant lengths (Murmur3, MD5 padding)',
    text='FNV-1 32/64: for every length the real loop is proved to consume exactly the n given bytes (NULs included, nothing beyond the buffer) and to equal the published recurrence h = (h*prime) xor byte (the shift-add form is proved equal to the multiply for every word inside the loop contract). Murmur3 x86_32/x64_128: for every length the body is proved to read exactly the little-endian blocks of the input in order and nothing outside the buffer; value equality with the published algorithm is decided completely for each length 1..130 with symbolic content (z3). MD5: MD5Transform equals an independently written table-driven RFC 1321 compression for all 2^128 x 2^512 inputs; Init constants; Update/Pad/Final feed exactly the RFC padded message to the compression function in order for every message length 1..130.',
    design_ref='DESIGN.md section 3 C18',
    note='Unbounded: FNV-1 32/64 values, Murmur read pattern/safety, MD5 compression. Bounded (constant length 1..130, arbitrary content): Murmur values, MD5 padding/buffering with the compression function replaced by a recording stub. qhashmd5_file (POSIX I/O) and alignment independence are not covered; composition "compression lemma + padded block sequence => MD5" is a meta-argument.',
    trusted_base=COMMON_TRUST + ['z3 4.8.12 as SMT back end for the multiplication-heavy equivalences', 'unaligned 32/64-bit loads are treated as defined little-endian loads'],
    unchecked=['qhashmd5_file', 'messages longer than 130 bytes for Murmur value equality and MD5 padding', 'nbytes >= 2^32 (qhashmd5 truncates to unsigned int)'],
)
PROPS['C19'] = dict(
    technique='CBMC bounded contract checks: every string routine against an independent executable reference on all buffers of a constant size over all 256 byte values, exactly-sized buffers, loops fully unwound with unwinding assertions',
    text='qstrtrim/_head/_tail, qstrupper/lower, qstrrev, qstrunchar, qstrcpy/qstrncpy (every size 0..n+2), qstrgets, qstrreplace (4 modes), qstrtok, qstrdup_between and qmemdup are compared with independently written reference functions for EVERY buffer content of the stated size (all byte values, hence every shorter string, blanks, delimiters, quotes, bytes >= 0x80) with all bounds/pointer obligations on exactly-sized buffers.',
    design_ref='DESIGN.md section 3 C19',
    note='Bounded stand-in throughout (strings <= 6/8 bytes; replace: source <= 3/5, token <= 2, word <= 2); labelled bounded, not counted as proved. Trailing empty field after a final delimiter is not returned by qstrtok (code behaviour, taken as the documented one). qstrtokenizer, qstrdupf/qstrcatf (vsnprintf) are outside the claim. The string under test sits one byte into its allocation because CBMC cannot represent the one-before-start pointer the backward scans form without dereferencing; the guard byte is arbitrary and asserted unchanged.',
    trusted_base=COMMON_TRUST + ['strlen/memmove/strcpy/strncmp/strncpy: CBMC library models; strstr: executable model in the harness'],
    unchecked=['strings longer than the stated bounds', 'qstrtokenizer, qstrdupf, qstrcatf, qstr_comma_number, qstrunique'],
)

LIST_BOUND = 'every list of exactly LN elements (quick LN 0..3, thorough 0..5), element sizes 1..2 symbolic, arbitrary bytes, every index in [-LN-3, LN+3], every limit 0..LN+2'
PROPS['C09'] = dict(
    technique='CBMC bounded contract checks on closed lists: every qlist operation from every list of a constant length, compared with the ideal sequence by walking the real links; queue/stack/grow wrappers',
    text='For every doubly linked list of LN elements (built directly, all element sizes/bytes/limits symbolic) each qlist operation is shown to realise exactly the ideal-sequence transition: insertion/access/pop/removal at the front- or back-relative index, refusal (ERANGE/ENOBUFS/EINVAL) without any effect, exact count and byte total, reverse, forward walk, toarray/tostring (trailing-NUL rule), clear, setsize; queue FIFO, stack LIFO and grow concatenation through the real wrappers. Every state satisfying the representation invariant is covered for the stated lengths, so the history quantifier is discharged by induction over operations.',
    design_ref='DESIGN.md section 3 C09',
    note='Bounded stand-in in list length (<= 3 quick, <= 5 thorough) and element size (<= 2 bytes); unbounded in history by the invariant argument (meta). qlist_debug (stdio) not covered.',
    trusted_base=COMMON_TRUST + [PTHREAD_TRUST, 'memcpy on constant-size elements: CBMC library model'],
    unchecked=['lists longer than 5 elements, elements larger than 2 bytes', 'qlist_debug, qqueue/qstack *str/*int convenience wrappers'],
)

HOSTS = 'Hosts so far: qvector (unbounded contract proofs), qlist/qqueue/qstack/qgrow (closed lists, bounded in length), string/encoding/hash leaf functions; see coverage.groups in the evidence file for the exact list of this run.'
PROPS['C11'] = dict(
    technique='CBMC-generated safety obligations (pointer validity, bounds, freed/dead objects, signed overflow, shifts, division) plus memcpy non-overlap and memory-leak obligations inside every contract harness of the host properties',
    text='Memory safety is the conjunction of the safety obligations CBMC generates for the real code in every contract harness (they hold for ALL inputs admitted by the harness, unbounded where the host harness is) with exactly-sized heap objects for all caller data, the non-overlap obligation of the memcpy contract, and memory-leak obligations on harnesses that release the container. ' + HOSTS,
    design_ref='DESIGN.md section 3 C11',
    note='As strong as the host harness: unbounded for the vector and the leaf functions, bounded (stated per group) for linked structures. Alignment, strict aliasing, uninitialised reads and out-of-object pointer arithmetic without dereference are not checked by CBMC.',
    trusted_base=COMMON_TRUST + [MEM_TRUST, PTHREAD_TRUST],
    unchecked=['containers whose harnesses are not built yet are not covered (see not_applicable / evidence)', 'data races (C13)'],
)
PROPS['C12'] = dict(
    technique='ownership postconditions in the contract harnesses: stored and returned buffers are fresh objects distinct from the caller buffer / internal buffer (__CPROVER_same_object, object size), byte-equal for an arbitrary ghost index; caller buffer scribbled after insertion',
    text='For every insertion the container is shown to hold the element bytes in an object different from the caller buffer (which is then overwritten in the harness), and every copying accessor (newmem, pop, toarray, walk copies, encoders, qmemdup) returns a fresh exactly-sized object with exactly the stored bytes. ' + HOSTS,
    design_ref='DESIGN.md section 3 C12',
    note='Inherits the bounds of the host harness. Independence after later mutations follows from the frame facts (operations assign/free only objects the container owns) - meta-argument.',
    trusted_base=COMMON_TRUST + [MEM_TRUST],
    unchecked=['containers whose harnesses are not built yet'],
)
PROPS['C14'] = dict(
    technique='ghost lock-depth counter maintained by assumed pthread contracts; postcondition depth_on_return == depth_on_entry on every public function, all paths incl. refusal and allocation failure (CBMC malloc may fail)',
    text='Every public function of the covered lockable containers is verified, from every state of its harness and under nondeterministic allocation failure, to return with the ghost lock depth it was entered with (entry depth 0..2: the caller may already hold the recursive lock). ' + HOSTS,
    design_ref='DESIGN.md section 3 C14',
    note='Path property: unbounded for the vector, closed structures for lists. pthread semantics assumed (trylock succeeds, recursive mutex); qlog not covered.',
    trusted_base=COMMON_TRUST + [PTHREAD_TRUST],
    unchecked=['qlog', 'containers whose harnesses are not built yet'],
)
PROPS['C15'] = dict(
    technique='nondeterministic allocator failure at every allocation site inside one symbolic run (CBMC malloc-may-fail); postcondition: failure reported => observable state unchanged and invariant holds; memory-leak obligations',
    text='Every allocating operation of the covered containers is verified with each malloc/calloc/realloc call free to fail independently: the call either succeeds with the normal contract or reports failure (ENOMEM) with contents, counts and invariant exactly as before; constructors leak nothing on failure. ' + HOSTS,
    design_ref='DESIGN.md section 3 C15',
    note='Inherits the bounds of the host harness; all failure combinations of the allocations inside one call are covered by the symbolic run.',
    trusted_base=COMMON_TRUST + [MEM_TRUST],
    unchecked=['containers whose harnesses are not built yet'],
)

PROPS['C05'] = dict(
    technique='CBMC bounded contract checks on closed hash tables: every operation from every table of a constant range/size with an uninterpreted hash function, compared with the ideal map for every key of the alphabet by walking the real chains',
    text='For every table with range 1..3 and 0..4 entries over an alphabet of four keys (hash values uninterpreted, so keys sharing a chain, equal hashes with different names and head/middle/tail positions all occur) put/putstr, get/getstr, remove, size, clear and the getnext walk are shown to realise exactly the ideal-map transition: last value and length per key, removal of exactly that key, exact count, each key once in a walk; the representation invariant (node in the chain of its hash, names distinct, chains acyclic, num exact) is re-established by every operation, so the history quantifier is discharged by induction over operations.',
    design_ref='DESIGN.md section 3 C05',
    note='Bounded stand-in (range <= 3, <= 4 entries, one-character keys, values <= 2 bytes); unbounded in history (meta-argument). The hash function is an assumed deterministic function of the key (its own correctness is C18). putint/getint/putstrf (snprintf/atoll/vsnprintf) and qhashtbl_debug are outside the claim.',
    trusted_base=COMMON_TRUST + [PTHREAD_TRUST, 'strcmp/strdup/strlen/memcpy on tiny constant-size strings: CBMC library models', 'qhashmurmur3_32 replaced by an uninterpreted deterministic function inside this harness'],
    unchecked=['ranges above 3, more than 4 entries, longer keys', 'putint/getint/putstrf formatting'],
)

NOT_APPLICABLE = {
    'C20': 'needs a second, reference parser as specification and a proof that two tokenisers agree on every document; CBMC has no usable model of the fgets/vsnprintf/realloc-based code and a bounded stand-in (~10 symbolic bytes) cannot hold one nested section, so nothing the property is about would be decided (DESIGN.md section 4)',
}

NOT_YET = 'not claimed yet: no obligation group has been built for this property at this commit'


def write_manifest():
    sys.path.insert(0, os.path.join(ROOT, 'lib'))
    import qvlib
    groups = qvlib.load_groups()
    allp = [json.loads(l)['id'] for l in open(os.path.join(ROOT, 'properties.jsonl'))]
    claimed = [p for p in allp if p in PROPS and any(p in g['props'] for g in groups)]
    checks = []
    for p in claimed:
        m = PROPS[p]
        checks.append({
            'property_id': p,
            'quick_cmd': 'bin/qv check %s --tier quick' % p,
            'thorough_cmd': 'bin/qv check %s --tier thorough' % p,
            'evidence_file': '/verif/evidence/%s.json' % p,
            'replay_cmd_template': 'bin/qv replay {path}',
            'engine': 'qv-cbmc-contracts',
            'level_claimed': {'category': 'proof', 'text': m['text'], 'design_ref': m.get('design_ref', 'DESIGN.md')},
            'level_note': m['note'],
            'technique': m['technique'],
        })
    na = []
    for p in allp:
        if p in claimed:
            continue
        na.append({'property_id': p, 'reason': NOT_APPLICABLE.get(p, NOT_YET)})
    man = {
        'version': 1,
        'setup_cmd': 'bin/setup',
        'hooks': {
            'guard': 'QLIBC_VERIF',
            'enable': 'no hooks: contracts are attached from /verif (harness includes the real source; loop contracts are woven into a scratch copy on every run)',
            'baseline_off_cmd': 'cmake -G Ninja -B /repo/_build -S /repo >/dev/null && cmake --build /repo/_build >/dev/null && ctest --test-dir /repo/_build -j8 --timeout 900',
            'source_commits': [],
            'add_only': True,
        },
        'engines': [{'name': 'qv-cbmc-contracts', 'path': 'bin/qv', 'serves_properties': claimed,
                     'kind_free_text': 'contract-based deductive verification of the real C code with CBMC 6.11 (predicate contracts + woven loop contracts + DFCC function contracts), native ASan/UBSan replay of counterexamples'}],
        'checks': checks,
        'not_applicable': na,
        'notes': 'All checks are `bin/qv check <id> --tier quick|thorough`; exit 0 held, 1 VIOLATION, 2 UNDECIDED (timeout/tool problem, never reported as violation). known_findings.txt lists recorded defects and fixed: entries.',
    }
    json.dump(man, open(os.path.join(ROOT, 'MANIFEST.json'), 'w'), indent=1)
    print('MANIFEST.json: %d claimed, %d not claimed' % (len(claimed), len(na)))
