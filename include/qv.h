/*
 * qv.h - common vocabulary of every contract harness.
 *
 * One harness source is built in three modes:
 *   (default)   proof mode: compiled by goto-cc, the real (woven) source is
 *               included, obligations are discharged by cbmc.
 *   QV_WITNESS  witness search: same text, sizes capped to QV_WCAP and input
 *               buffers filled by explicit nondet assignments, real source
 *               un-woven, loops unwound.  Only run after an obligation failed,
 *               to obtain a concrete failing input.
 *   QV_NATIVE   native replay: compiled by gcc/clang with ASan+UBSan, inputs
 *               read from a witness file, the same pre/postconditions are
 *               evaluated on the real code.
 */
#ifndef QV_H
#define QV_H

#include <stddef.h>
#include <stdint.h>
#include <stdbool.h>
#include <stdlib.h>
#include <string.h>
#include <stdio.h>
#include <errno.h>

#ifdef QV_NATIVE
/* ------------------------------------------------------------------ native */
extern int qv_failed;
long long qv_witness(const char *name, long long dflt);
long long qv_witness_t(const char *type, const char *name, long long dflt);
#define QV_ASSUME(c) do { if (!(c)) { printf("REPLAY: assumption not met: %s\n", #c); fflush(stdout); exit(77); } } while (0)
#define QV_ASSERT(c, msg) do { if (!(c)) { printf("REPLAY-FAILED: %s\n", msg); fflush(stdout); qv_failed = 1; } } while (0)
#define QV_REACH(msg) do { } while (0)
#define QV_END() do { } while (0)
#define QV_IN(type, name) type name = (type) qv_witness_t(#type, #name, 0)
#define QV_IN_BYTES(buf, n) do { for (size_t qv_i = 0; qv_i < (size_t)(n); qv_i++) { \
        char qv_nm[96]; snprintf(qv_nm, sizeof qv_nm, "%s[%zu]", #buf, qv_i); \
        ((unsigned char *)(buf))[qv_i] = (unsigned char) qv_witness(qv_nm, 0); } } while (0)
#define QV_R_OK(p, n) ((p) != NULL)
#define QV_W_OK(p, n) ((p) != NULL)
#define QV_SAME_OBJECT(a, b) ((const void *)(a) == (const void *)(b))   /* approximation: same address */
#define QV_POINTER_OFFSET(p) (0)
#define QV_OBJECT_SIZE(p) (0)
#define QV_IS_FREED(p) (1)          /* cannot be observed natively; ASan reports the misuse instead */
#else
/* -------------------------------------------------------------------- cbmc */
#define QV_ASSUME(c) __CPROVER_assume(c)
#define QV_ASSERT(c, msg) __CPROVER_assert((c), msg)
/* canaries: assertions that MUST fail; a canary reported SUCCESS means the
 * harness is vacuous at that point and the runner reports UNDECIDED. */
#define QV_REACH(msg) __CPROVER_assert(0, "CANARY: " msg)
#define QV_END() __CPROVER_assert(0, "CANARY: harness end reachable")
#define QV_NONDET_DECL(type, tag) type nondet_##tag(void)
unsigned char nondet_uchar(void);
char nondet_char(void);
int nondet_int(void);
unsigned nondet_uint(void);
long nondet_long(void);
size_t nondet_size_t(void);
_Bool nondet_bool(void);
uint8_t nondet_uint8_t(void);
uint16_t nondet_uint16_t(void);
uint32_t nondet_uint32_t(void);
uint64_t nondet_uint64_t(void);
int64_t nondet_int64_t(void);
#define nondet_bool_t nondet_bool
#define QV_IN(type, name) type name = nondet_##type()
#ifdef QV_WITNESS
#define QV_IN_BYTES(buf, n) do { for (size_t qv_i = 0; qv_i < (size_t)(n); qv_i++) { \
        unsigned char qv_byte_##buf = nondet_uchar(); ((unsigned char *)(buf))[qv_i] = qv_byte_##buf; } } while (0)
#else
#define QV_IN_BYTES(buf, n) do { } while (0)   /* fresh objects are nondeterministic already */
#endif
#define QV_R_OK(p, n) __CPROVER_r_ok((p), (n))
#define QV_W_OK(p, n) __CPROVER_w_ok((p), (n))
#define QV_SAME_OBJECT(a, b) __CPROVER_same_object((a), (b))
#define QV_POINTER_OFFSET(p) __CPROVER_POINTER_OFFSET(p)
#define QV_OBJECT_SIZE(p) __CPROVER_OBJECT_SIZE(p)
/* freed-ness of a pointer the harness remembered: r_ok on a dead object is exactly what is asked, so the
 * pointer-primitive check is switched off for this one expression (harness code only) */
static _Bool qv_is_freed(const void *p) {
#pragma CPROVER check push
#pragma CPROVER check disable "pointer-primitive"
    return !__CPROVER_r_ok(p, 1);
#pragma CPROVER check pop
}
#define QV_IS_FREED(p) qv_is_freed(p)
#endif

/* QV_ALLOC: allocation of HARNESS state that never fails and yields a concrete object address (the
 * library malloc model may return NULL, which makes every later access through the pointer a case
 * split).  The object is a normal heap object for free() and is tracked by the leak check exactly as
 * the malloc model tracks its objects. */
#if defined(QV_NATIVE)
#define QV_ALLOC(n) calloc(1, (n))
#else
extern const void *__CPROVER_memory_leak;
static inline void *qv_alloc(size_t n) {
    void *p = __CPROVER_allocate(n, 1);
    _Bool rec = nondet_bool();
    __CPROVER_memory_leak = rec ? p : __CPROVER_memory_leak;
    return p;
}
#define QV_ALLOC(n) qv_alloc(n)
#endif

/* size caps: proof mode uses the large cap, witness/native the small one */
#if defined(QV_WITNESS) || defined(QV_NATIVE)
#ifndef QV_WCAP
#define QV_WCAP 6
#endif
#define QV_CAP(big) (QV_WCAP)
#else
#define QV_CAP(big) (big)
#endif

/* errno as an ordinary location (glibc: errno is *__errno_location()) */
#ifndef QV_NATIVE
int gh_errno;
int *__errno_location(void) { return &gh_errno; }
#endif

#endif
