/*
 * Window induction for the recursive insertion put_obj (C01, C02, C15) - UNBOUNDED in tree size.
 *
 * One activation of put_obj touches its argument node, both children and the colours of the four
 * grandchildren.  The contract is therefore stated over a WINDOW:
 *   - real nodes for depth 0..1 (one-byte keys ordered by the user comparator gh_cmp, heap values);
 *   - below, SUMMARY leaves: a real node object whose colour is readable, whose key pointer is NULL and
 *     whose child pointers are POISON (any access through them fails a pointer obligation - a window that
 *     is too small shows up as a failed obligation, never as an unsound pass).  The unseen subtree below
 *     it is summarised by ghost data gh_sum[id] (id kept in the never-read namesize field): key range,
 *     black height below, colours of its children, number of keys, membership of the probe key P and
 *     of the operation key K.
 * W_valid() is the LLRB 2-3-4 predicate (BST order, no red-red, no lone right-leaning red, equal black
 * height) over real nodes + summaries.  The recursive self-call inside put_obj is redirected textually
 * (weave rule rename_calls) to put_obj__ih, the INDUCTION HYPOTHESIS: it asserts the precondition on its
 * argument, computes the argument's kind and view, and returns a fresh window that is only assumed to
 * satisfy the postcondition for that kind.  The harness proves the same postcondition for the outer
 * activation (the real code).  Structural induction over the subtree (not mechanised) gives the contract
 * for every tree; qtreetbl_putobj is then checked against the put_obj contract at the root.
 *
 * Contract of put_obj by kind of the argument (bh = black height, unchanged in every case):
 *   K0 NULL                      -> a red single node holding K, or NULL with errno ENOMEM
 *   K1 black, not a 4-node       -> black root, valid subtree
 *   K2 black 4-node (both red)   -> red root, valid subtree (the split moved the red link up)
 *   K3 red                       -> red root, valid subtree, OR red root with a red left child whose
 *                                   children are black (the caller's rotate_right repairs it)
 * and for the view: member'(P) == member(P) || (ok && P == K); count' == count + (ok && !member(K));
 * tbl->num changes by the same amount; ok == false only with errno == ENOMEM (allocation may fail at
 * every malloc inside the run).
 */
#include "qv.h"
typedef unsigned char uchar;
#include "qv_pthread.h"
#include "containers/qtreetbl.h"

#define NS 6
#define VSZ 2
struct wsum { uchar mn, mx; int bh; bool lred, rred, hasP, hasK; unsigned cnt; };
static struct wsum gh_sum[NS];
static uchar gh_K, gh_P;
static int gh_lo, gh_hi;
static qtreetbl_obj_t *gh_n[7];
static qtreetbl_t *gh_tbl;
static const void *gh_name, *gh_data;
static size_t gh_dsz;
static int gh_ih_calls;
static bool gh_ih_failed;
int gh_cmp_calls;

int gh_cmp(const void *n1, size_t s1, const void *n2, size_t s2) {
    gh_cmp_calls++;
    uchar a = *(const uchar *)n1, b = *(const uchar *)n2;
    return a < b ? -1 : (a > b ? 1 : 0);
}

static qtreetbl_obj_t *put_obj__ih(qtreetbl_t *tbl, qtreetbl_obj_t *obj, const void *name, size_t namesize, const void *data, size_t datasize);
static qtreetbl_obj_t *put_obj__ct(qtreetbl_t *tbl, qtreetbl_obj_t *obj, const void *name, size_t namesize, const void *data, size_t datasize);
#include "src/utilities/qstring.c"
#include "src/containers/qtreetbl.c"

#define RED(n) ((n) != NULL && (n)->red)
#define KEY(n) ((int)*(uchar *)(n)->name)

static int W_valid(qtreetbl_obj_t *n, int lo, int hi, bool parent_red, int d) {
    if (n == NULL) return 0;
    if (d == 0) return -1;
    bool r = n->red;
    if (r && parent_red) return -1;
    if (n->name == NULL) {
        if (n->namesize >= NS) return -1;
        const struct wsum *s = &gh_sum[n->namesize];
        if (!(lo < s->mn && s->mn <= s->mx && s->mx < hi)) return -1;
        if (r && (s->lred || s->rred)) return -1;
        if (s->rred && !s->lred) return -1;
        if (s->bh < 0 || s->bh > 60 || s->cnt < 1 || s->cnt > 1000000) return -1;
        if (s->hasP && !(s->mn <= gh_P && gh_P <= s->mx)) return -1;
        if (s->hasK && !(s->mn <= gh_K && gh_K <= s->mx)) return -1;
        if (gh_P == gh_K && s->hasP != s->hasK) return -1;
        return s->bh + (r ? 0 : 1);
    }
    int k = KEY(n);
    if (!(lo < k && k < hi)) return -1;
    if (RED(n->right) && !RED(n->left)) return -1;
    int bl = W_valid(n->left, lo, k, r, d - 1), br = W_valid(n->right, k, hi, r, d - 1);
    if (bl < 0 || br < 0 || bl != br) return -1;
    return bl + (r ? 0 : 1);
}
static bool W_has(qtreetbl_obj_t *n, bool probe, int d) {
    if (n == NULL || d == 0) return false;
    if (n->name == NULL) return probe ? gh_sum[n->namesize].hasP : gh_sum[n->namesize].hasK;
    return KEY(n) == (probe ? gh_P : gh_K) || W_has(n->left, probe, d - 1) || W_has(n->right, probe, d - 1);
}
static unsigned W_cnt(qtreetbl_obj_t *n, int d) {
    if (n == NULL || d == 0) return 0;
    if (n->name == NULL) return gh_sum[n->namesize].cnt;
    return 1 + W_cnt(n->left, d - 1) + W_cnt(n->right, d - 1);
}
enum { K0, K1, K2, K3 };
static int kind_of(qtreetbl_obj_t *n) { return n == NULL ? K0 : n->red ? K3 : (RED(n->left) && RED(n->right)) ? K2 : K1; }

/* the postcondition on the shape of the result, by kind of the argument */
static bool post_shape(int kind, qtreetbl_obj_t *r, int lo, int hi, int bh, int d) {
    if (r == NULL) return false;
    if (kind == K1) return !r->red && W_valid(r, lo, hi, false, d) == bh;
    if (kind == K2) return r->red && W_valid(r, lo, hi, false, d) == bh;
    if (!r->red) return false;
    if (W_valid(r, lo, hi, false, d) == bh) return true;
    if (r->name == NULL) return false;
    int k = KEY(r);
    if (!(lo < k && k < hi) || !RED(r->left)) return false;
    return W_valid(r->left, lo, k, false, d - 1) == bh && W_valid(r->right, k, hi, true, d - 1) == bh;
}

static qtreetbl_obj_t *POISON;
static qtreetbl_obj_t *mk_summary(unsigned id) {
    qtreetbl_obj_t *n = QV_ALLOC(sizeof *n);
    n->name = NULL; n->namesize = id; n->data = NULL; n->datasize = 0;
    n->red = nondet_bool(); n->left = POISON; n->right = POISON; n->next = NULL; n->tid = nondet_uchar();
    struct wsum s;
    s.mn = nondet_uchar(); s.mx = nondet_uchar(); s.bh = nondet_int(); s.lred = nondet_bool(); s.rred = nondet_bool();
    s.hasP = nondet_bool(); s.hasK = nondet_bool(); s.cnt = nondet_unsigned();
    gh_sum[id] = s;
    return n;
}
static qtreetbl_obj_t *mk_real(void) {
    qtreetbl_obj_t *n = QV_ALLOC(sizeof *n);
    uchar *k = QV_ALLOC(1); k[0] = nondet_uchar();
    n->name = k; n->namesize = 1;
    n->datasize = VSZ; n->data = QV_ALLOC(VSZ);
    n->red = nondet_bool(); n->left = NULL; n->right = NULL; n->next = NULL; n->tid = nondet_uchar();
    return n;
}

/* the contract of put_obj on a non-NULL argument, used as a stub: PRE asserted, result only assumed to satisfy POST */
static qtreetbl_obj_t *ct_result(qtreetbl_t *tbl, qtreetbl_obj_t *c, int lo, int hi, bool parent_red, bool *pok) {
    int bh = W_valid(c, lo, hi, parent_red, 3);
    QV_ASSERT(bh >= 0, "C02: the subtree handed to put_obj is a valid LLRB subtree inside its key range (precondition of the contract)");
    int kind = kind_of(c);
    bool hasP = W_has(c, true, 3), hasK = W_has(c, false, 3);
    unsigned cnt = W_cnt(c, 3);
    bool ok = nondet_bool();
    qtreetbl_obj_t *r = mk_real();
    if (nondet_bool()) r->left = mk_summary(4);
    if (nondet_bool()) r->right = mk_summary(5);
    __CPROVER_assume(post_shape(kind, r, lo, hi, bh, 3));
    __CPROVER_assume(W_has(r, true, 3) == (hasP || (ok && gh_P == gh_K)));
    __CPROVER_assume(W_has(r, false, 3) == (hasK || ok));
    __CPROVER_assume(W_cnt(r, 3) == cnt + ((ok && !hasK) ? 1 : 0));
    if (ok && !hasK) tbl->num++;
    if (!ok) errno = ENOMEM;
    *pok = ok;
    /* the argument subtree is CONSUMED: the real function restructures and recolours its nodes in place (also when it
     * fails), so nothing may be concluded from the old root pointer any more - it becomes an invalid summary with poison links */
    c->name = NULL; c->namesize = NS; c->red = nondet_bool(); c->left = POISON; c->right = POISON;
    return r;
}

/* ---- the induction hypothesis: contract stub for the recursive self-call */
static qtreetbl_obj_t *put_obj__ih(qtreetbl_t *tbl, qtreetbl_obj_t *c, const void *name, size_t namesize, const void *data, size_t datasize) {
    QV_ASSERT(tbl == gh_tbl && name == gh_name && namesize == 1 && data == gh_data && datasize == gh_dsz, "C01: put_obj hands its arguments on unchanged");
    QV_ASSERT(gh_ih_calls == 0, "C02: one activation descends at most once");
    gh_ih_calls++;
    int k0 = KEY(gh_n[0]);
    QV_ASSERT(c == gh_n[0]->left || c == gh_n[0]->right, "C01: the descent continues in a child of the node");
    bool left = (c == gh_n[0]->left) && (gh_K < k0);
    QV_ASSERT(left ? (c == gh_n[0]->left && gh_K < k0) : (c == gh_n[0]->right && gh_K > k0), "C01: the descent follows the comparator");
    if (c == NULL) return put_obj(tbl, NULL, name, namesize, data, datasize);   /* K0 is loop- and recursion-free: the real code */
    bool ok;
    qtreetbl_obj_t *r = ct_result(tbl, c, left ? gh_lo : k0, left ? k0 : gh_hi, gh_n[0]->red, &ok);
    if (!ok) gh_ih_failed = true;
    return r;
}

/* ---- the proved contract of put_obj as a stub for its caller qtreetbl_putobj (call redirected by a weave rule) */
static bool gh_top_ok;
static qtreetbl_obj_t *put_obj__ct(qtreetbl_t *tbl, qtreetbl_obj_t *c, const void *name, size_t namesize, const void *data, size_t datasize) {
    QV_ASSERT(tbl == gh_tbl && c == tbl->root && name == gh_name && namesize == 1 && data == gh_data && datasize == gh_dsz, "C01: putobj hands the root and its own arguments to put_obj");
    QV_ASSERT(errno == 0, "C15: putobj clears errno before the insertion so that a failure can be recognised");
    if (c == NULL) { qtreetbl_obj_t *r0 = put_obj(tbl, NULL, name, namesize, data, datasize); gh_top_ok = (r0 != NULL); return r0; }
    QV_ASSERT(!c->red, "C02: the root handed to put_obj is black");
    return ct_result(tbl, c, -1, 256, false, &gh_top_ok);
}

static void setup(qtreetbl_t **pt, uchar **pname, uchar **pval) {
    POISON = (qtreetbl_obj_t *)QV_ALLOC(1);
    qtreetbl_t *t = QV_ALLOC(sizeof *t);
    t->compare = gh_cmp; t->qmutex = NULL; t->root = NULL;
    t->num = nondet_size_t();
    QV_ASSUME(t->num <= 1000000000);
    gh_K = nondet_uchar(); gh_P = nondet_uchar();
    uchar *name = QV_ALLOC(1); name[0] = gh_K;
    uchar *val = QV_ALLOC(VSZ);
    gh_tbl = t; gh_name = name; gh_data = val; gh_dsz = VSZ; gh_ih_calls = 0; gh_ih_failed = false; gh_cmp_calls = 0;
    *pt = t; *pname = name; *pval = val;
}

/* ---- induction step for a non-NULL argument */
void h_win_put_step(void) {
    qtreetbl_t *t; uchar *name, *val;
    setup(&t, &name, &val);
    /* window: 0 root, 1/2 children (real), 3..6 grandchildren (summaries 0..3); presence symbolic */
    /* case split into independent queries (per-instance constants): presence of the two children, colour of the node,
     * side of the operation key; the registry enumerates every combination that admits a valid window (a lone right child, a red node with a red child etc. are not LLRB) */
#ifndef WP1
#define WP1 nondet_bool()
#define WP2 nondet_bool()
#define WRED nondet_bool()
#define WDIR nondet_int()
#endif
    gh_n[0] = mk_real();
    gh_n[0]->red = WRED;
    gh_n[1] = WP1 ? mk_real() : NULL;
    gh_n[2] = WP2 ? mk_real() : NULL;
#ifdef WC1
    if (gh_n[1]) gh_n[1]->red = WC1;      /* colours of the children: per-instance constants as well */
    if (gh_n[2]) gh_n[2]->red = WC2;
#endif
    { int dir = WDIR; int k0_ = KEY(gh_n[0]); QV_ASSUME(dir == 0 ? gh_K < k0_ : dir == 1 ? gh_K == k0_ : gh_K > k0_); }
    for (int i = 3; i <= 6; i++) gh_n[i] = (gh_n[(i - 1) / 2] != NULL && nondet_bool()) ? mk_summary(i - 3) : NULL;
    gh_n[0]->left = gh_n[1]; gh_n[0]->right = gh_n[2];
    if (gh_n[1]) { gh_n[1]->left = gh_n[3]; gh_n[1]->right = gh_n[4]; }
    if (gh_n[2]) { gh_n[2]->left = gh_n[5]; gh_n[2]->right = gh_n[6]; }
    gh_lo = nondet_int(); gh_hi = nondet_int();
    QV_ASSUME(gh_lo >= -1 && gh_hi <= 256);
    bool parent_red = nondet_bool();
    int bh = W_valid(gh_n[0], gh_lo, gh_hi, parent_red, 3);
    QV_ASSUME(bh >= 0);                                         /* PRE */
    QV_ASSUME(gh_lo < gh_K && gh_K < gh_hi);                    /* the caller descended by the comparator */
    int kind = kind_of(gh_n[0]);
    bool hasP = W_has(gh_n[0], true, 3), hasK = W_has(gh_n[0], false, 3);
    unsigned cnt = W_cnt(gh_n[0], 3);
    size_t num0 = t->num;
    uchar v0 = val[0], v1 = val[1];
    bool at_root = KEY(gh_n[0]) == gh_K;
    qtreetbl_obj_t *root0 = gh_n[0];
    errno = 0;
    qtreetbl_obj_t *r = put_obj(t, gh_n[0], name, 1, val, VSZ);
    bool ok = errno != ENOMEM;
    QV_ASSERT(errno == 0 || errno == ENOMEM, "C15: put_obj reports nothing but allocation failure");
    QV_ASSERT(r != NULL, "C01: put_obj of a non-empty subtree returns a subtree");
    QV_ASSERT(post_shape(kind, r, gh_lo, gh_hi, bh, 5), "C02: put_obj: LLRB post shape for the kind of its argument, same black height, keys in range");
    QV_ASSERT(W_has(r, true, 5) == (hasP || (ok && gh_P == gh_K)), "C01: membership of every other key is unchanged; the put key is present after success");
    QV_ASSERT(W_has(r, false, 5) == (hasK || ok), "C01,C15: the key is present after success, and a failed put does not add it");
    QV_ASSERT(W_cnt(r, 5) == cnt + ((ok && !hasK) ? 1 : 0), "C01: the number of keys grows by one exactly for a new key");
    QV_ASSERT(t->num == num0 + ((ok && !hasK) ? 1 : 0), "C01,C15: the size counter grows by one exactly for a new key that was stored");
    if (at_root) {
        QV_ASSERT(gh_ih_calls == 0, "C02: an equal key ends the descent");
        if (ok) QV_ASSERT(root0->datasize == VSZ && root0->data != val && ((uchar *)root0->data)[0] == v0 && ((uchar *)root0->data)[1] == v1,
                          "C01,C12: re-putting an existing key stores a private copy of the new value with its length");
        QV_REACH("window: value replaced");
    }
    if (!ok) QV_REACH("window: allocation failure");
    if (kind == K2) QV_REACH("window: 4-node split");
    if (kind == K3 && W_valid(r, gh_lo, gh_hi, false, 5) != bh) QV_REACH("window: red-red handed to the caller");
    if (kind == K1 && RED(r->left) && RED(r->right)) QV_REACH("window: 4-node formed");
    QV_END();
}

/* ---- base case: NULL argument */
void h_win_put_null(void) {
    qtreetbl_t *t; uchar *name, *val;
    setup(&t, &name, &val);
    size_t num0 = t->num;
    errno = 0;
    qtreetbl_obj_t *r = put_obj(t, NULL, name, 1, val, VSZ);
    if (r == NULL) {
        QV_ASSERT(errno == ENOMEM && t->num == num0, "C15: a failed allocation of the new node is reported and counts nothing");
        QV_REACH("null: allocation failure");
    } else {
        QV_ASSERT(errno == 0, "C15: success leaves errno alone");
        QV_ASSERT(r->red && r->left == NULL && r->right == NULL && r->namesize == 1 && KEY(r) == gh_K && r->name != name, "C01,C12: a new key becomes a red leaf holding a private copy of the key");
        QV_ASSERT(r->datasize == VSZ && r->data != val && ((uchar *)r->data)[0] == val[0] && ((uchar *)r->data)[1] == val[1], "C01,C12: ... and a private copy of the value");
        QV_ASSERT(t->num == num0 + 1, "C01: the size counter grows by one");
    }
    QV_END();
}

/* ---- the public entry point against the put_obj contract at the root */
void h_win_putobj_top(void) {
    qtreetbl_t *t; uchar *name, *val;
    setup(&t, &name, &val);
    /* the root window: NULL, or a black root with summary children (valid tree: root black) */
    QV_IN(bool, empty);
    if (!empty) {
        gh_n[0] = mk_real();
        gh_n[0]->left = nondet_bool() ? mk_summary(0) : NULL;
        gh_n[0]->right = nondet_bool() ? mk_summary(1) : NULL;
        QV_ASSUME(!gh_n[0]->red);
        t->root = gh_n[0];
    }
    gh_lo = -1; gh_hi = 256;
    int bh = W_valid(t->root, -1, 256, false, 2);
    QV_ASSUME(bh >= 0);
    bool hasP = W_has(t->root, true, 2), hasK = W_has(t->root, false, 2);
    unsigned cnt = W_cnt(t->root, 2);
    size_t num0 = t->num;
    qtreetbl_obj_t *root0 = t->root;
    bool res = qtreetbl_putobj(t, name, 1, val, VSZ);
    QV_ASSERT(res == gh_top_ok, "C01,C15: putobj returns true exactly when put_obj stored the key");
    QV_ASSERT(res || errno == ENOMEM, "C15: failure is reported as ENOMEM");
    if (t->root != NULL) {
        QV_ASSERT(!t->root->red, "C02,C15: the root is black after every put");
        int bh2 = W_valid(t->root, -1, 256, false, 3);
        QV_ASSERT(bh2 >= 0, "C02,C15: the tree is a valid LLRB tree after every put, failed ones included");
    }
    QV_ASSERT(W_has(t->root, true, 3) == (hasP || (res && gh_P == gh_K)), "C01,C15: every other key is untouched by put");
    QV_ASSERT(W_has(t->root, false, 3) == (hasK || res), "C01: the key is present after a successful put");
    QV_ASSERT(t->num == num0 + ((res && !hasK) ? 1 : 0) && W_cnt(t->root, 3) == cnt + ((res && !hasK) ? 1 : 0), "C01,C15: size equals the number of distinct keys");
    QV_ASSERT(!qtreetbl_putobj(t, NULL, 1, val, 1) && !qtreetbl_putobj(t, name, 0, val, 1), "C01: NULL / empty key is refused");
    if (!res) QV_REACH("top: allocation failure");
    if (root0 != NULL && t->root != root0) QV_REACH("top: root replaced");
    QV_END();
}
