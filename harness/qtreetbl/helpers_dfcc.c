/*
 * Carrier A: CBMC function contracts (requires / ensures / assigns) on the loop-free tree helpers, enforced by
 * goto-instrument --dfcc.  The contracts sit on prototypes placed BEFORE the real file is included; CBMC merges
 * them with the later definitions (also for static functions), so /repo needs no annotation.
 * rotate_left / rotate_right: exact pointer rewiring and colour transfer, frame = the two nodes and the counter.
 * flip_color: the three colours are inverted, nothing else is assigned.
 */
#include "qv.h"
#include "containers/qtreetbl.h"
typedef unsigned char uchar;
extern uint32_t _q_treetbl_rotate_left_cnt, _q_treetbl_rotate_right_cnt, _q_treetbl_flip_color_cnt;

static qtreetbl_obj_t *rotate_left(qtreetbl_obj_t *obj)
__CPROVER_requires(__CPROVER_is_fresh(obj, sizeof(*obj)) && __CPROVER_is_fresh(obj->right, sizeof(*obj)))
__CPROVER_ensures(__CPROVER_return_value == __CPROVER_old(obj->right))
__CPROVER_ensures(__CPROVER_return_value->left == obj)
__CPROVER_ensures(obj->right == __CPROVER_old(obj->right->left))
__CPROVER_ensures(__CPROVER_return_value->red == __CPROVER_old(obj->red) && obj->red == 1)
__CPROVER_ensures(obj->left == __CPROVER_old(obj->left) && __CPROVER_return_value->right == __CPROVER_old(obj->right->right))
__CPROVER_assigns(obj->right, obj->red, obj->right->left, obj->right->red, _q_treetbl_rotate_left_cnt);

static qtreetbl_obj_t *rotate_right(qtreetbl_obj_t *obj)
__CPROVER_requires(__CPROVER_is_fresh(obj, sizeof(*obj)) && __CPROVER_is_fresh(obj->left, sizeof(*obj)))
__CPROVER_ensures(__CPROVER_return_value == __CPROVER_old(obj->left))
__CPROVER_ensures(__CPROVER_return_value->right == obj)
__CPROVER_ensures(obj->left == __CPROVER_old(obj->left->right))
__CPROVER_ensures(__CPROVER_return_value->red == __CPROVER_old(obj->red) && obj->red == 1)
__CPROVER_ensures(obj->right == __CPROVER_old(obj->right) && __CPROVER_return_value->left == __CPROVER_old(obj->left->left))
__CPROVER_assigns(obj->left, obj->red, obj->left->right, obj->left->red, _q_treetbl_rotate_right_cnt);

static qtreetbl_obj_t *flip_color(qtreetbl_obj_t *obj)
__CPROVER_requires(__CPROVER_is_fresh(obj, sizeof(*obj)) && __CPROVER_is_fresh(obj->left, sizeof(*obj)) && __CPROVER_is_fresh(obj->right, sizeof(*obj)))
__CPROVER_ensures(__CPROVER_return_value == obj)
__CPROVER_ensures(obj->red == !__CPROVER_old(obj->red) && obj->left->red == !__CPROVER_old(obj->left->red) && obj->right->red == !__CPROVER_old(obj->right->red))
__CPROVER_ensures(obj->left == __CPROVER_old(obj->left) && obj->right == __CPROVER_old(obj->right))
__CPROVER_assigns(obj->red, obj->left->red, obj->right->red, _q_treetbl_flip_color_cnt);

/* move_red_right, checked MODULARLY: its calls to flip_color and rotate_right are replaced by their contracts
 * (--replace-call-with-contract), so only the callee contracts, not the callee bodies, are visible here.
 * Case split of the real code: after the colour flip, if the left-left grandchild is red the node is rotated right and
 * flipped again.  Structural postcondition: either the same root with the three colours inverted, or the old left child
 * as new root with the old root as its right child, the old left->right handed over, colours as the lemma of the LLRB
 * deletion says (new root has the old root's ORIGINAL colour; old root black... stated exactly below). */
static qtreetbl_obj_t *move_red_right(qtreetbl_obj_t *obj)
__CPROVER_requires(__CPROVER_is_fresh(obj, sizeof(*obj)) && __CPROVER_is_fresh(obj->left, sizeof(*obj)) && __CPROVER_is_fresh(obj->right, sizeof(*obj)))
__CPROVER_requires(obj->left->left == NULL || __CPROVER_is_fresh(obj->left->left, sizeof(*obj)))
__CPROVER_ensures((__CPROVER_old(obj->left->left) == NULL || !__CPROVER_old(obj->left->left->red)) ==>
                  (__CPROVER_return_value == obj && obj->red == !__CPROVER_old(obj->red) && obj->left->red == !__CPROVER_old(obj->left->red) &&
                   obj->right->red == !__CPROVER_old(obj->right->red) && obj->left == __CPROVER_old(obj->left) && obj->right == __CPROVER_old(obj->right)))
__CPROVER_ensures((__CPROVER_old(obj->left->left) != NULL && __CPROVER_old(obj->left->left->red)) ==>
                  (__CPROVER_return_value == __CPROVER_old(obj->left) && __CPROVER_return_value->right == obj &&
                   obj->left == __CPROVER_old(obj->left->right) && obj->right == __CPROVER_old(obj->right) &&
                   __CPROVER_return_value->left == __CPROVER_old(obj->left->left)))
__CPROVER_assigns(obj->red, obj->left, obj->left->red, obj->left->right, obj->right->red,
                  _q_treetbl_flip_color_cnt, _q_treetbl_rotate_right_cnt)
__CPROVER_assigns(obj->left->left != NULL: obj->left->left->red);

/* move_red_left, checked MODULARLY against the contracts of flip_color, rotate_right and rotate_left.
 * Case A (right-left grandchild absent or black): the three colours are inverted, nothing is rewired.
 * Case B (right-left grandchild RL red): RL becomes the root with the node's ORIGINAL colour, the node becomes its black
 * left child and adopts RL's old left subtree, the old right child R becomes (or stays below) the right side, black, and
 * adopts RL's old right subtree; in the 2-3-4 variant a red right-right grandchild RR is then rotated above R. */
static qtreetbl_obj_t *move_red_left(qtreetbl_obj_t *obj)
__CPROVER_requires(__CPROVER_is_fresh(obj, sizeof(*obj)) && __CPROVER_is_fresh(obj->left, sizeof(*obj)) && __CPROVER_is_fresh(obj->right, sizeof(*obj)))
__CPROVER_requires(obj->right->left == NULL || __CPROVER_is_fresh(obj->right->left, sizeof(*obj)))
__CPROVER_requires(obj->right->right == NULL || __CPROVER_is_fresh(obj->right->right, sizeof(*obj)))
__CPROVER_ensures((__CPROVER_old(obj->right->left) == NULL || !__CPROVER_old(obj->right->left->red)) ==>
                  (__CPROVER_return_value == obj && obj->red == !__CPROVER_old(obj->red) && obj->left->red == !__CPROVER_old(obj->left->red) &&
                   obj->right->red == !__CPROVER_old(obj->right->red) && obj->left == __CPROVER_old(obj->left) && obj->right == __CPROVER_old(obj->right) &&
                   obj->right->left == __CPROVER_old(obj->right->left) && obj->right->right == __CPROVER_old(obj->right->right)))
__CPROVER_ensures((__CPROVER_old(obj->right->left) != NULL && __CPROVER_old(obj->right->left->red)) ==>
                  (__CPROVER_return_value == __CPROVER_old(obj->right->left) && __CPROVER_return_value->left == obj))
__CPROVER_ensures((__CPROVER_old(obj->right->left) != NULL && __CPROVER_old(obj->right->left->red)) ==>
                  ((__CPROVER_return_value->red != 0) == (__CPROVER_old(obj->red) != 0) && obj->red == 0))   /* != 0: a fresh bool may hold any byte */
__CPROVER_ensures((__CPROVER_old(obj->right->left) != NULL && __CPROVER_old(obj->right->left->red)) ==>
                  (obj->left == __CPROVER_old(obj->left) && obj->left->red == !__CPROVER_old(obj->left->red)))
__CPROVER_ensures((__CPROVER_old(obj->right->left) != NULL && __CPROVER_old(obj->right->left->red)) ==>
                  (obj->right == __CPROVER_old(obj->right->left->left)))
__CPROVER_ensures((__CPROVER_old(obj->right->left) != NULL && __CPROVER_old(obj->right->left->red) &&
                   (__CPROVER_old(obj->right->right) == NULL || !__CPROVER_old(obj->right->right->red))) ==>
                  (__CPROVER_return_value->right == __CPROVER_old(obj->right) && __CPROVER_return_value->right->red == 0 &&
                   __CPROVER_return_value->right->left == __CPROVER_old(obj->right->left->right) &&
                   __CPROVER_return_value->right->right == __CPROVER_old(obj->right->right)))
__CPROVER_ensures((__CPROVER_old(obj->right->left) != NULL && __CPROVER_old(obj->right->left->red) &&
                   __CPROVER_old(obj->right->right) != NULL && __CPROVER_old(obj->right->right->red)) ==>
                  (__CPROVER_return_value->right == __CPROVER_old(obj->right->right) && __CPROVER_return_value->right->red == 0 &&
                   __CPROVER_return_value->right->left == __CPROVER_old(obj->right) && __CPROVER_return_value->right->left->red == 1 &&
                   __CPROVER_return_value->right->left->left == __CPROVER_old(obj->right->left->right) &&
                   __CPROVER_return_value->right->left->right == __CPROVER_old(obj->right->right->left)))
__CPROVER_assigns(obj->red, obj->right, obj->left->red, obj->right->red, obj->right->left, obj->right->right,
                  _q_treetbl_flip_color_cnt, _q_treetbl_rotate_right_cnt, _q_treetbl_rotate_left_cnt)
__CPROVER_assigns(obj->right->left != NULL: obj->right->left->red, obj->right->left->left, obj->right->left->right)
__CPROVER_assigns(obj->right->right != NULL: obj->right->right->red, obj->right->right->left);

#include "src/utilities/qstring.c"
#include "src/containers/qtreetbl.c"

void h_dfcc_rotate_left(void) { qtreetbl_obj_t *o; rotate_left(o); }
void h_dfcc_rotate_right(void) { qtreetbl_obj_t *o; rotate_right(o); }
void h_dfcc_flip_color(void) { qtreetbl_obj_t *o; flip_color(o); }
void h_dfcc_move_red_right(void) { qtreetbl_obj_t *o; move_red_right(o); }
void h_dfcc_move_red_left(void) { qtreetbl_obj_t *o; move_red_left(o); }
