/*
 * Contracts for qtreetbl.c on CLOSED trees (C01, C02, C03, C04, C11, C12, C14, C15).
 * State: EVERY left-leaning red-black 2-3-4 tree of height <= TD (per-instance constant): nodes live
 * in a complete-binary-tree layout of concrete heap objects, presence, colours, keys (one byte, ordered
 * by the harness comparator gh_cmp = a user-supplied total order given by a rank), values (0..2 bytes),
 * traversal stamps and parent pointers are symbolic, constrained only by the representation invariant.
 * After the call the REAL tree is walked through its pointers by independent spec functions.
 * Bounded in tree height only; every operation is proved from an arbitrary invariant state.
 * With -DSHAPE=<bitmask> the set of occupied layout positions is a per-instance constant (the registry
 * enumerates EVERY shape that admits a valid colouring), which keeps the pointer graph concrete.
 */
#include "qv.h"
typedef unsigned char uchar;
#ifndef TD
#define TD 3
#endif
#define NN ((1 << TD) - 1)
#define VSZ 2
#ifdef QV_C13
#define QV_LOCK_HOOKS
#endif
#include "qv_pthread.h"

int gh_cmp_calls;       /* ghost: number of comparator invocations (C02 cost bound) */
#include "src/utilities/qstring.c"
#include "src/containers/qtreetbl.c"

#ifdef QV_C13
/* C13 overlay (see harness/qvector/vector.c): root/num/tid are poison while the table lock is not held */
static qtreetbl_t *c13_t; static qtreetbl_obj_t *c13_root; static size_t c13_num; static uint8_t c13_tid;
static void c13_reveal(void) { c13_t->root = c13_root; c13_t->num = c13_num; c13_t->tid = c13_tid; }
static void c13_hide(void) { c13_root = c13_t->root; c13_num = c13_t->num; c13_tid = c13_t->tid; c13_t->root = NULL; c13_t->num = nondet_size_t(); c13_t->tid = nondet_uint8_t(); }
void qv_on_acquire(void) { if (c13_t) c13_reveal(); }
void qv_on_release(void) { if (c13_t) c13_hide(); }
#define C13_END() do { c13_t = NULL; } while (0)      /* overlay off: the harness releases the container */
#define C13_BEGIN(t) do { c13_t = (t); gh_lock_outer = 0; c13_hide(); } while (0)
#define C13_SETTLE() do { if (c13_t) c13_reveal(); } while (0)
#else
#define C13_BEGIN(t) do { } while (0)
#define C13_SETTLE() do { } while (0)
#define C13_END() do { } while (0)
#endif
/* user-supplied ordering: rank = first key byte */
int gh_cmp(const void *n1, size_t s1, const void *n2, size_t s2) {
    gh_cmp_calls++;
    uchar a = *(const uchar *)n1, b = *(const uchar *)n2;
    return a < b ? -1 : (a > b ? 1 : 0);
}

struct pre {
    bool present[NN]; uchar key[NN]; bool red[NN]; size_t dsz[NN]; uchar dat[NN][VSZ];
    size_t ksz[NN]; uchar key2[NN];        /* key length (1 or 2 bytes) and second key byte */
    qtreetbl_obj_t *node[NN];
};
struct tstate { qtreetbl_t *t; struct pre p; size_t n; int depth0; };

/* LLRB(2-3-4) validity of the layout subtree at index i with keys in (lo,hi); returns black height or -1 */
static int pre_valid(const struct pre *p, int i, int lo, int hi, bool parent_red) {
    if (i >= NN || !p->present[i]) return 0;
    int k = p->key[i];
    if (!(lo < k && k < hi)) return -1;
    bool r = p->red[i];
    if (r && parent_red) return -1;
    int l = 2 * i + 1, rr = 2 * i + 2;
    bool lred = l < NN && p->present[l] && p->red[l];
    bool rred = rr < NN && p->present[rr] && p->red[rr];
    if (rred && !lred) return -1;                      /* no lone right-leaning red */
    int bl = pre_valid(p, l, lo, k, r), br = pre_valid(p, rr, k, hi, r);
    if (bl < 0 || br < 0 || bl != br) return -1;
    return bl + (r ? 0 : 1);
}
static size_t pre_count(const struct pre *p) { size_t c = 0; for (int i = 0; i < NN; i++) if (p->present[i]) c++; return c; }
static int pre_find(const struct pre *p, uchar k) { for (int i = 0; i < NN; i++) if (p->present[i] && p->key[i] == k) return i; return -1; }

/* the same predicates over the REAL pointers after the call (depth-bounded recursion) */
#define PD (TD + 2)
static int post_valid(qtreetbl_obj_t *n, int lo, int hi, bool parent_red, int depth) {
    if (n == NULL) return 0;
    if (depth == 0) return -1;
    if (n->name == NULL || n->namesize < 1 || n->namesize > 2) return -1;
    int k = *(uchar *)n->name;
    if (!(lo < k && k < hi)) return -1;
    bool r = n->red;
    if (r && parent_red) return -1;
    bool lred = n->left != NULL && n->left->red, rred = n->right != NULL && n->right->red;
    if (rred && !lred) return -1;
    int bl = post_valid(n->left, lo, k, r, depth - 1), br = post_valid(n->right, k, hi, r, depth - 1);
    if (bl < 0 || br < 0 || bl != br) return -1;
    return bl + (r ? 0 : 1);
}
static qtreetbl_obj_t *post_find(qtreetbl_obj_t *n, uchar k, int depth) {
    if (n == NULL || depth == 0) return NULL;
    uchar nk = *(uchar *)n->name;
    if (k == nk) return n;
    return post_find(k < nk ? n->left : n->right, k, depth - 1);
}
static size_t post_count(qtreetbl_obj_t *n, int depth) {
    if (n == NULL || depth == 0) return 0;
    return 1 + post_count(n->left, depth - 1) + post_count(n->right, depth - 1);
}

#if defined(SHAPE) && defined(KEYS_CANON)
/* canonical keys: the tree code looks at keys only through the comparator, so its behaviour depends only on
 * the ORDER of the keys involved; the stored keys are the odd numbers 1,3,5,.. in in-order position and the
 * operation key is the per-instance constant PROBE in 0..2n (even: absent, between/below/above; odd: present) */
static int canon_next;
static void canon_assign(uchar *key, int i) {
    if (i >= NN || !((SHAPE >> i) & 1)) return;
    canon_assign(key, 2 * i + 1);
    key[i] = (uchar)(2 * canon_next + 1); canon_next++;
    canon_assign(key, 2 * i + 2);
}
#endif
static struct tstate mk(bool valid_only) {
    struct tstate s;
#if defined(SHAPE) && defined(KEYS_CANON)
    uchar canon[NN]; for (int i = 0; i < NN; i++) canon[i] = 0;
    canon_next = 0; canon_assign(canon, 0);
#endif
    QV_IN(bool, ts);
    qtreetbl_t *t = QV_ALLOC(sizeof *t);
    t->compare = gh_cmp;
    t->qmutex = ts ? QV_ALLOC(sizeof(qmutex_t)) : NULL;
    for (int i = 0; i < NN; i++) {
#ifdef SHAPE
        const bool pres = (SHAPE >> i) & 1;      /* per-instance constant shape: every valid LLRB shape of the height is one instance */
#else
        QV_IN(bool, pres);
#endif
#if defined(SHAPE) && defined(KEYS_CANON)
        const uchar key = canon[i];
#else
        QV_IN(uchar, key);
#endif
#ifdef COLORS
        const bool red = (COLORS >> i) & 1;      /* per-instance constant colouring: the registry enumerates every valid one */
#else
        QV_IN(bool, red);
#endif
        QV_IN(size_t, dsz); QV_IN(uchar, d0); QV_IN(uchar, d1);
        QV_ASSUME(dsz <= VSZ);
        if (i > 0 && !s.p.present[(i - 1) / 2]) QV_ASSUME(!pres);
        s.p.present[i] = pres; s.p.key[i] = key; s.p.red[i] = red; s.p.dsz[i] = dsz; s.p.dat[i][0] = d0; s.p.dat[i][1] = d1;
        s.p.node[i] = NULL;
        QV_IN(uchar, tid);
        if (pres) {                                   /* absent layout positions own no heap objects */
            qtreetbl_obj_t *o = QV_ALLOC(sizeof *o);
            /* binary keys of differing lengths: the order is decided by the first byte, the rest is payload */
#if defined(SHAPE) && defined(KEYS_CANON)
            const bool longkey = ((key >> 1) & 1) != 0;    /* canonical keys: lengths alternate in key order, so every key differs in length from its in-order neighbours */
#else
            const bool longkey = (i & 1) != 0;         /* symbolic keys: lengths alternate over the layout (left children long), concrete so that the name objects keep concrete addresses */
#endif
            size_t ksz = longkey ? 2 : 1;
            QV_IN(uchar, k2);
            uchar *nm = longkey ? QV_ALLOC(2) : QV_ALLOC(1);   /* exactly-sized either way */
            nm[0] = key; if (longkey) nm[1] = k2;
            o->name = nm; o->namesize = ksz;
            s.p.ksz[i] = ksz; s.p.key2[i] = k2;
            if (dsz > 0) { uchar *dt = QV_ALLOC(VSZ); dt[0] = d0; dt[1] = d1; o->data = dt; } else o->data = NULL;
            o->datasize = dsz; o->red = red;
            o->tid = tid;
            s.p.node[i] = o;
        }
    }
    for (int i = 0; i < NN; i++) {
        int l = 2 * i + 1, r = 2 * i + 2;
        if (!s.p.present[i]) continue;
        s.p.node[i]->left = (l < NN && s.p.present[l]) ? s.p.node[l] : NULL;
        s.p.node[i]->right = (r < NN && s.p.present[r]) ? s.p.node[r] : NULL;
        s.p.node[i]->next = NULL;
    }
    t->root = s.p.present[0] ? s.p.node[0] : NULL;
    if (valid_only) {
        QV_ASSUME(pre_valid(&s.p, 0, -1, 256, false) >= 0);
        QV_ASSUME(!s.p.present[0] || !s.p.red[0]);          /* black root */
    }
    s.n = pre_count(&s.p);
    t->num = s.n;
    QV_IN(uchar, ttid); t->tid = ttid;
    /* INV_T: no node carries a traversal stamp newer than the table's (so the stamp the next walk takes is fresh) */
    if (valid_only) for (int i = 0; i < NN; i++) if (s.p.present[i]) QV_ASSUME(s.p.node[i]->tid <= ttid);
    QV_IN(int, depth0);
    QV_ASSUME(depth0 >= 0 && depth0 <= 2);
    gh_lock_depth = depth0; gh_lock_acquired = 0; gh_lock_outer = 0; gh_cmp_calls = 0;
#ifdef QV_C13
    QV_ASSUME(ts && depth0 == 0);
#endif
    s.t = t; s.depth0 = depth0;
    return s;
}
#ifdef QV_C13
#define LOCK_BALANCED(s) do { C13_SETTLE(); QV_ASSERT(gh_lock_depth == (s).depth0 && gh_lock_outer <= 1, "C13: all shared accesses of the operation lie in ONE critical section, which is released on return"); gh_lock_outer = 0; } while (0)
#else
#define LOCK_BALANCED(s) QV_ASSERT(gh_lock_depth == (s).depth0, "C14: lock depth on return equals depth on entry")
#endif

static bool post_stamps_ok(qtreetbl_obj_t *n, uchar ttid, int depth) {
    if (n == NULL || depth == 0) return true;
    return n->tid <= ttid && post_stamps_ok(n->left, ttid, depth - 1) && post_stamps_ok(n->right, ttid, depth - 1);
}
static void INV_tree(struct tstate *s, size_t want_num) {
    qtreetbl_t *t = s->t;
    QV_ASSERT(post_stamps_ok(t->root, t->tid, PD), "C03: INV_T no node carries a traversal stamp newer than the table's");
    QV_ASSERT(t->root == NULL || !t->root->red, "C02,C15: root is black");
    QV_ASSERT(post_valid(t->root, -1, 256, false, PD) >= 0, "C02,C15: keys in search order, no red node with a red child, equal black height on every path, no lone right-leaning red");
    QV_ASSERT(t->num == want_num && post_count(t->root, PD) == want_num, "C01,C15: size equals the number of distinct keys");
    QV_ASSERT(t->compare == gh_cmp, "C01: ordering untouched");
}

/* value stored under probe key P in the pre state / post state */
static void same_as_before(struct tstate *s, uchar P) {
    int i = pre_find(&s->p, P);
    qtreetbl_obj_t *n = post_find(s->t->root, P, PD);
    QV_ASSERT((i >= 0) == (n != NULL), "C01: operations on one key never change which other keys are present");
    if (i >= 0 && n != NULL) {
        QV_ASSERT(n->namesize == s->p.ksz[i] && (s->p.ksz[i] < 2 || ((uchar *)n->name)[1] == s->p.key2[i]), "C01: another key keeps its exact bytes and length");
        QV_ASSERT(n->datasize == s->p.dsz[i], "C01: value length under another key is unchanged");
        for (int b = 0; b < VSZ; b++) if ((size_t)b < s->p.dsz[i]) QV_ASSERT(((uchar *)n->data)[b] == s->p.dat[i][b], "C01: value bytes under another key are unchanged");
    }
}

/* ------------------------------------------------------------ putobj */
void h_put(void) {
    struct tstate s = mk(true);
    qtreetbl_t *t = s.t;
#ifdef PROBE
    const uchar k = PROBE;
#else
    QV_IN(uchar, k);
#endif
    QV_IN(uchar, P); QV_IN(size_t, dsz);
    QV_ASSUME(dsz >= 1 && dsz <= VSZ);
    uchar *name = malloc(1); uchar *val = malloc(VSZ);
    QV_ASSUME(name != NULL && val != NULL);
    name[0] = k; QV_IN_BYTES(val, VSZ);
    uchar v0 = val[0], v1 = val[1];
    bool had = pre_find(&s.p, k) >= 0;
    C13_BEGIN(t);
    errno = 0;
    bool r = qtreetbl_putobj(t, name, 1, val, dsz);
    LOCK_BALANCED(s);
    if (r) {
        name[0] ^= 0xff; val[0] ^= 0xff; val[1] ^= 0xff;            /* scribble the caller's buffers */
        INV_tree(&s, s.n + (had ? 0 : 1));
        qtreetbl_obj_t *n = post_find(t->root, k, PD);
        QV_ASSERT(n != NULL && n->datasize == dsz && ((uchar *)n->data)[0] == v0 && (dsz < 2 || ((uchar *)n->data)[1] == v1), "C01,C12: get returns the bytes and length most recently put under the key");
        if (P != k) same_as_before(&s, P);
        if (had) QV_REACH("put replaced"); else QV_REACH("put inserted");
    } else {
        QV_ASSERT(errno == ENOMEM, "C15: put fails only on allocation failure");
        INV_tree(&s, s.n);                                          /* still a valid tree with the same keys ... */
        same_as_before(&s, P);                                      /* ... and the same values, also under k */
#ifndef NOFAIL
        QV_REACH("put allocation failure");
#endif
    }
    free(name); free(val);
    C13_END();
    QV_ASSERT(!qtreetbl_putobj(t, NULL, 1, &v0, 1) && !qtreetbl_putobj(t, &v0, 0, &v0, 1), "C01: NULL / empty key is refused");
    QV_ASSERT(gh_lock_depth == s.depth0, "C14: refused calls leave the lock depth unchanged");
    C13_END(); qtreetbl_free(t);           /* leak obligation */
    QV_END();
}

/* ------------------------------------------------------------ removeobj */
void h_remove(void) {
    struct tstate s = mk(true);
    qtreetbl_t *t = s.t;
#ifdef PROBE
    uchar k = PROBE;
#else
    QV_IN(uchar, k);
#endif
    QV_IN(uchar, P);
    bool had = pre_find(&s.p, k) >= 0;
    C13_BEGIN(t);
    errno = 0;
    bool r = qtreetbl_removeobj(t, &k, 1);
    LOCK_BALANCED(s);
    QV_ASSERT(r == had, "C01: remove succeeds exactly when an equal key is present");
    QV_ASSERT(r || errno == ENOENT, "C01: removal of an absent key reports ENOENT");
    INV_tree(&s, s.n - (had ? 1 : 0));                              /* also after removal of an absent key */
    QV_ASSERT(post_find(t->root, k, PD) == NULL, "C01: the removed key is gone");
    if (P != k) same_as_before(&s, P);
    if (had) QV_REACH("remove present"); else QV_REACH("remove absent");
#ifndef NOFREE
    C13_END(); qtreetbl_free(t);           /* leak obligation: node, key and value of the removed entry were released */
#endif
    QV_END();
}

/* ------------------------------------------------------------ getobj / size / find_min / find_max */
void h_get(void) {
    struct tstate s = mk(true);
    qtreetbl_t *t = s.t;
    QV_IN(uchar, P); QV_IN(bool, newmem); QV_IN(bool, wantsize);
    int i = pre_find(&s.p, P);
    size_t sz = 99;
    errno = 0;
    gh_cmp_calls = 0;
    C13_BEGIN(t);
    uchar *d = qtreetbl_getobj(t, &P, 1, wantsize ? &sz : NULL, newmem);
    int calls = gh_cmp_calls;
    LOCK_BALANCED(s);
    INV_tree(&s, s.n); same_as_before(&s, P);
    /* cost: at most 2*log2(n+1) comparisons: n >= 2^bh - 1 and a search path has at most 2*bh nodes */
    int bh = pre_valid(&s.p, 0, -1, 256, false);
    QV_ASSERT(calls <= 2 * bh && (size_t)1 << bh <= s.n + 1, "C02: a lookup performs at most 2*log2(n+1) key comparisons");
    if (i < 0) { QV_ASSERT(d == NULL && errno == ENOENT, "C01: get of an absent key reports ENOENT"); QV_REACH("get absent"); }
    else if (s.p.dsz[i] == 0) QV_ASSERT(d == NULL, "C01: an empty value is returned as NULL");
    else if (d == NULL) QV_ASSERT(newmem, "C15: get of a present key fails only when the copy cannot be allocated");
    else {
        QV_ASSERT(!wantsize || sz == s.p.dsz[i], "C01: get returns the exact length");
        for (int b = 0; b < VSZ; b++) if ((size_t)b < s.p.dsz[i]) QV_ASSERT(d[b] == s.p.dat[i][b], "C01,C12: get returns the stored bytes");
        if (newmem) { QV_ASSERT(d != (uchar *)s.p.node[i]->data, "C12: copy is independent of the stored value"); free(d); }
        QV_REACH("get present");
    }
#ifndef QV_C13
    QV_ASSERT(qtreetbl_size(t) == s.n, "C01: size reports the key count");
#endif
    /* min / max */
    size_t ns = 77;
    C13_BEGIN(t);
    uchar *mn = qtreetbl_find_min(t, &ns);
    LOCK_BALANCED(s);
    if (s.n == 0) QV_ASSERT(mn == NULL && errno == ENOENT, "C01: find_min on an empty table reports ENOENT");
    else if (mn != NULL) {
        QV_ASSERT(pre_find(&s.p, mn[0]) >= 0 && ns == s.p.ksz[pre_find(&s.p, mn[0])], "C01: find_min returns a stored key with its exact length");
        if (i >= 0) QV_ASSERT(mn[0] <= P, "C01: find_min returns the least present key");
        QV_ASSERT(mn != (uchar *)s.p.node[pre_find(&s.p, mn[0])]->name, "C12: find_min returns a copy");
        free(mn);
    }
    C13_BEGIN(t);
    uchar *mx = qtreetbl_find_max(t, &ns);
    LOCK_BALANCED(s);
    if (s.n == 0) QV_ASSERT(mx == NULL, "C01: find_max on an empty table reports not-found");
    else if (mx != NULL) {
        QV_ASSERT(pre_find(&s.p, mx[0]) >= 0 && ns == s.p.ksz[pre_find(&s.p, mx[0])], "C01: find_max returns a stored key with its exact length");
        if (i >= 0) QV_ASSERT(mx[0] >= P, "C01: find_max returns the greatest present key");
        free(mx);
    }
    INV_tree(&s, s.n);
    C13_BEGIN(t);
    qtreetbl_clear(t);
    LOCK_BALANCED(s);
    QV_ASSERT(t->root == NULL && t->num == 0, "C01: clear empties the table");
    C13_END(); qtreetbl_free(t);
    QV_END();
}

/* k-th smallest present key of the pre state (k from 0) */
static int pre_kth(const struct pre *p, size_t k) {
    for (int i = 0; i < NN; i++) if (p->present[i]) {
        size_t smaller = 0;
        for (int j = 0; j < NN; j++) if (p->present[j] && p->key[j] < p->key[i]) smaller++;
        if (smaller == k) return i;
    }
    return -1;
}
/* stale parent pointers left behind by earlier walks / searches: any node of the tree or NULL */
static void stale_next(struct tstate *s) {
    for (int i = 0; i < NN; i++) if (s->p.present[i]) {
        QV_IN(int, nx);
        QV_ASSUME(nx >= -1 && nx < NN && (nx < 0 || s->p.present[nx]));
        s->p.node[i]->next = nx < 0 ? NULL : s->p.node[nx];
    }
}

/* ------------------------------------------------------------ C03: complete walk from a zeroed cursor after ANY history:
 * any INV_T state, every parent pointer arbitrary (left behind by earlier complete or abandoned walks and searches) */
void h_walk(void) {
    struct tstate s = mk(true);
    qtreetbl_t *t = s.t;
    stale_next(&s);
    QV_IN(bool, newmem);
    qtreetbl_obj_t cur; memset(&cur, 0, sizeof cur);
    for (size_t i = 0; i < NN; i++) {
        if (i >= s.n) break;
        errno = 0;
        bool r = qtreetbl_getnext(t, &cur, newmem);
        if (!r && newmem && errno == ENOMEM) {
            /* the copy could not be allocated: reported, nothing visited, the tree is intact */
            INV_tree(&s, s.n);
            QV_REACH("walk step allocation failure");
            goto done;
        }
        QV_ASSERT(r, "C03: walk returns every stored key before reporting the end");
        if (!r) goto done;
        int e = pre_kth(&s.p, i);
        QV_ASSERT(cur.name != NULL && (cur.data != NULL || s.p.dsz[e] == 0), "C15: a walk step never claims success with a missing key or value");
        if (cur.name == NULL) goto done;
        QV_ASSERT(cur.namesize == s.p.ksz[e] && *(uchar *)cur.name == s.p.key[e], "C03: walk returns the keys exactly once each in strictly ascending order");
        QV_ASSERT(cur.datasize == s.p.dsz[e], "C03: walk returns the current value size");
        if (cur.data != NULL) for (int b = 0; b < VSZ; b++) if ((size_t)b < s.p.dsz[e]) QV_ASSERT(((uchar *)cur.data)[b] == s.p.dat[e][b], "C03: walk returns the current value bytes");
        if (newmem) { free(cur.name); free(cur.data); }
        QV_ASSERT(post_stamps_ok(t->root, t->tid, PD), "C03: INV_T holds at every point where a walk may be abandoned");
    }
    QV_ASSERT(!qtreetbl_getnext(t, &cur, newmem), "C03: walk reports the end after the last key");
    INV_tree(&s, s.n);
    QV_IN(uchar, P); same_as_before(&s, P);
    QV_ASSERT(!qtreetbl_getnext(t, NULL, newmem), "C03: NULL cursor is refused");
done:
    C13_END(); qtreetbl_free(t);
    QV_END();
}

/* ------------------------------------------------------------ C04: nearest-key search */
void h_nearest(void) {
    struct tstate s = mk(true);
    qtreetbl_t *t = s.t;
    stale_next(&s);                     /* including the root's parent pointer */
    QV_IN(uchar, P); QV_IN(bool, newmem);
    /* floor semantics over the key SET only */
    int want = -1;
    for (int i = 0; i < NN; i++) if (s.p.present[i] && s.p.key[i] <= P && (want < 0 || s.p.key[i] > s.p.key[want])) want = i;
    if (want < 0) want = pre_kth(&s.p, 0);
    bool fresh = true;                  /* "no walk has been left unfinished": no node carries the current stamp */
    for (int i = 0; i < NN; i++) if (s.p.present[i] && s.p.node[i]->tid == t->tid) fresh = false;
    errno = 0;
    qtreetbl_obj_t o = qtreetbl_find_nearest(t, &P, 1, newmem);
    LOCK_BALANCED(s);
    INV_tree(&s, s.n); same_as_before(&s, P);
    if (s.n == 0) { QV_ASSERT(o.name == NULL && errno == ENOENT, "C04: search on an empty table reports not-found"); QV_REACH("nearest empty"); }
    else if (o.name != NULL) {
        QV_ASSERT(o.namesize == s.p.ksz[want] && *(uchar *)o.name == s.p.key[want], "C04: search returns the equal key, else the greatest smaller key, else the smallest key");
        QV_ASSERT(o.datasize == s.p.dsz[want], "C04: search returns the value size of that key");
        QV_ASSERT(o.data != NULL || s.p.dsz[want] == 0, "C15: a search never claims success with a missing value");
        if (newmem) { free(o.name); free(o.data); }
        QV_REACH("nearest found");
        if (fresh) {
            /* continuing with getnext from the returned cursor visits every stored key exactly once, then ends */
            bool seen[NN]; for (int i = 0; i < NN; i++) seen[i] = false;
            size_t cnt = 0;
            for (size_t i = 0; i < NN + 1; i++) {
                if (!qtreetbl_getnext(t, &o, false)) break;
                int e = pre_find(&s.p, *(uchar *)o.name);
                QV_ASSERT(e >= 0 && !seen[e], "C04: continuation visits no key twice");
                if (e < 0) break;
                seen[e] = true; cnt++;
            }
            QV_ASSERT(cnt == s.n, "C04: continuation visits every stored key exactly once and then ends");
            QV_REACH("nearest continuation");
        }
    } else QV_ASSERT(newmem && errno == ENOMEM && o.data == NULL, "C15: search result is lost only when its copy cannot be allocated, and that is reported");
    o = qtreetbl_find_nearest(t, NULL, 1, false);
    QV_ASSERT(o.name == NULL && errno == EINVAL, "C04: NULL key is refused");
    LOCK_BALANCED(s);
    C13_END(); qtreetbl_free(t);
    QV_END();
}

/* ------------------------------------------------------------ C02: the library's own checker agrees with the invariant,
 * for EVERY coloured tree of the height (valid or not) */
static int pre_rb(const struct pre *p, int i, bool parent_red) {
    if (i >= NN || !p->present[i]) return 1;
    bool r = p->red[i];
    if (r && parent_red) return -1;
    int l = 2 * i + 1, rr = 2 * i + 2;
    bool lred = l < NN && p->present[l] && p->red[l];
    bool rred = rr < NN && p->present[rr] && p->red[rr];
    if (rred && !lred) return -1;
    int bl = pre_rb(p, l, r), br = pre_rb(p, rr, r);
    if (bl < 0 || br < 0 || bl != br) return -1;
    return bl + (r ? 0 : 1);
}
void h_checker(void) {
    struct tstate s = mk(false);
    bool ok = !(s.p.present[0] && s.p.red[0]) && pre_rb(&s.p, 0, false) >= 0;
    int c = qtreetbl_check(s.t);
    QV_ASSERT((c == 0) == ok, "C02: qtreetbl_check() accepts exactly the trees that satisfy the red-black and left-leaning rules");
    if (ok) QV_REACH("checker accepts"); else QV_REACH("checker rejects");
    QV_ASSERT(qtreetbl_check(NULL) == 0, "C02: checker tolerates NULL");
    C13_END(); qtreetbl_free(s.t);
    QV_END();
}
