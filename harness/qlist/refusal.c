/*
 * Refusal lemma for qlist.c (C09, C11, C14) - UNBOUNDED in the length of the list.
 *
 * For a list of ANY length (num symbolic up to INT_MAX, the range in which the library's int index
 * arithmetic is defined) and EVERY int index, an access / removal / insertion whose index is out of
 * range, and an insertion into a full list, is refused with the documented errno, returns NULL/false,
 * changes no field of the list, returns with the lock depth it was entered with and touches no
 * element: first/last point to POISON (a one-byte object), so any access to an element fails a
 * pointer obligation.  The refusal paths are loop-free; the walking loops are unreachable under the
 * out-of-range precondition (unwinding assertions on).  In-range behaviour is the bounded contract
 * of harness/qlist/list.c.
 */
#include "qv.h"
typedef unsigned char uchar;
#include "qv_pthread.h"
#include "src/containers/qlist.c"

void h_list_refusal(void) {
    qlist_t *l = QV_ALLOC(sizeof *l);
    qlist_obj_t *POISON = (qlist_obj_t *)QV_ALLOC(1);
    QV_IN(bool, ts);
    l->qmutex = ts ? QV_ALLOC(sizeof(qmutex_t)) : NULL;
    QV_IN(size_t, num); QV_IN(size_t, max); QV_IN(size_t, datasum);
    QV_ASSUME(num <= 2147483647);
    QV_ASSUME(max == 0 || num <= max);
    l->num = num; l->max = max; l->datasum = datasum;
    l->first = num ? POISON : NULL; l->last = num ? POISON : NULL;
    l->lock = qlist_lock; l->unlock = qlist_unlock;
    gh_lock_depth = 0;
    QV_IN(int, depth0);
    QV_ASSUME(depth0 >= 0 && depth0 <= 2 && (ts || depth0 == 0));
    gh_lock_depth = depth0;
    QV_IN(int, index);
    QV_IN(int, op);
    QV_ASSUME(op >= 0 && op <= 3);
    uchar byte = 7;
    size_t sz = 99;
    errno = 0;
    if (op <= 2) {
        /* access / pop / remove: valid positions are -num .. num-1 */
        QV_ASSUME((long)index >= (long)num || (long)index < -(long)num);
        if (op == 0) QV_ASSERT(qlist_getat(l, index, &sz, true) == NULL, "C09: out-of-range getat is refused");
        if (op == 1) QV_ASSERT(qlist_popat(l, index, &sz) == NULL, "C09: out-of-range popat is refused");
        if (op == 2) QV_ASSERT(!qlist_removeat(l, index), "C09: out-of-range removeat is refused");
        QV_ASSERT(errno == ERANGE, "C09: out-of-range access/removal reports ERANGE");
        QV_REACH("refusal: access");
    } else {
        /* insertion: valid positions are -(num+1) .. num; a full list refuses every insertion */
        QV_IN(bool, full);
        if (full) { QV_ASSUME(max > 0 && num == max); }
        else { QV_ASSUME(max == 0 || num < max); QV_ASSUME((long)index > (long)num || (long)index < -(long)num - 1); }
        QV_ASSERT(!qlist_addat(l, index, &byte, 1), "C09: insertion into a full list or at an out-of-range position is refused");
        QV_ASSERT(errno == (full ? ENOBUFS : ERANGE), "C09: a full list reports ENOBUFS, an out-of-range position ERANGE");
        QV_ASSERT(!qlist_addat(l, 0, NULL, 1) && !qlist_addat(l, 0, &byte, 0), "C09: NULL data / zero size is refused");
        QV_REACH("refusal: insertion");
    }
    QV_ASSERT(l->num == num && l->max == max && l->datasum == datasum && l->first == (num ? POISON : NULL) && l->last == (num ? POISON : NULL),
              "C09: a refused operation leaves the list untouched");
    QV_ASSERT(gh_lock_depth == depth0, "C14: a refused operation returns with the lock depth it was entered with");
    QV_END();
}
