/*
 * Contracts for qlist.c and its wrappers qqueue.c / qstack.c / qgrow.c (C09, C11, C12, C14, C15).
 * State: EVERY doubly linked list of exactly LN elements (per-instance constant) satisfying INV_l,
 * element sizes symbolic in 1..ESZ, element bytes arbitrary (NULs included), size limit `max`
 * symbolic, thread-safe or not.  The list is built by direct construction (not through the API), so
 * the operation under contract is the only library code on the path.  After the call the real list is
 * walked through first/next and last/prev and compared with the ideal sequence.  Bounded in LN only.
 */
#include "qv.h"
typedef unsigned char uchar;
#ifndef LN
#define LN 3
#endif
#ifndef ESZ
#define ESZ 2
#endif
#ifdef QV_C13
#define QV_LOCK_HOOKS
#endif
#include "qv_pthread.h"
#include "src/containers/qlist.c"
#include "src/containers/qqueue.c"
#include "src/containers/qstack.c"
#include "src/containers/qgrow.c"

#ifdef QV_C13
/* C13 overlay (see harness/qvector/vector.c): shared fields are poison while the list lock is not held */
static qlist_t *c13_l; static size_t c13_num, c13_sum; static qlist_obj_t *c13_first, *c13_last;
static void c13_reveal(void) { c13_l->num = c13_num; c13_l->datasum = c13_sum; c13_l->first = c13_first; c13_l->last = c13_last; }
static void c13_hide(void) { c13_num = c13_l->num; c13_sum = c13_l->datasum; c13_first = c13_l->first; c13_last = c13_l->last;
    c13_l->num = nondet_size_t(); c13_l->datasum = nondet_size_t(); c13_l->first = NULL; c13_l->last = NULL; }
void qv_on_acquire(void) { c13_reveal(); }
void qv_on_release(void) { c13_hide(); }
#define C13_BEGIN(l) do { c13_l = (l); c13_hide(); } while (0)
#define C13_SETTLE() c13_reveal()
#else
#define C13_BEGIN(l) do { } while (0)
#define C13_SETTLE() do { } while (0)
#endif

/* ideal sequence */
struct model { size_t n; size_t size[LN + 2]; uchar data[LN + 2][ESZ]; };

struct lstate { qlist_t *l; struct model m; size_t max; int depth0; };

static struct lstate mk(void) {
    struct lstate s;
    QV_IN(bool, ts);
    QV_IN(size_t, max);
    QV_ASSUME(max <= LN + 2);
    qlist_t *l = qlist(ts ? QLIST_THREADSAFE : 0);
    QV_ASSUME(l != NULL);
    l->max = max;
    s.m.n = LN;
    qlist_obj_t *prev = NULL;
    size_t sum = 0;
    for (size_t i = 0; i < LN; i++) {
        QV_IN(size_t, esz);
        QV_ASSUME(esz >= 1 && esz <= ESZ);
        qlist_obj_t *o = malloc(sizeof(qlist_obj_t));
        QV_ASSUME(o != NULL);
        uchar *edata = malloc(esz);
        QV_ASSUME(edata != NULL);
        QV_IN_BYTES(edata, esz);
        o->data = edata; o->size = esz; o->prev = prev; o->next = NULL;
        if (prev) prev->next = o; else l->first = o;
        l->last = o;
        prev = o;
        s.m.size[i] = esz;
        for (size_t b = 0; b < ESZ; b++) s.m.data[i][b] = b < esz ? edata[b] : 0;
        sum += esz;
    }
    l->num = LN; l->datasum = sum;
    QV_IN(int, depth0);
    QV_ASSUME(depth0 >= 0 && depth0 <= 2);
    gh_lock_depth = depth0; gh_lock_acquired = 0; gh_lock_outer = 0;
    s.l = l; s.max = max; s.depth0 = depth0;
#ifdef QV_C13
    QV_ASSUME(ts && depth0 == 0);
#endif
    return s;
}

/* representation invariant + equality with the ideal sequence */
static void check(struct lstate *s, const struct model *m) {
    qlist_t *l = s->l;
    QV_ASSERT(l->num == m->n, "C09: element count is exact");
    size_t sum = 0;
    qlist_obj_t *o = l->first, *prev = NULL;
    for (size_t i = 0; i < LN + 2; i++) {
        if (i >= m->n) break;
        QV_ASSERT(o != NULL, "C09: list holds every element of the ideal sequence");
        if (o == NULL) return;
        QV_ASSERT(o->prev == prev, "C09: INV back link matches the forward order");
        QV_ASSERT(o->size == m->size[i], "C09: element size at this position is exact");
        for (size_t b = 0; b < ESZ; b++) if (b < m->size[i]) QV_ASSERT(((uchar *)o->data)[b] == m->data[i][b], "C09,C12: element bytes at this position are exact");
        sum += o->size;
        prev = o; o = o->next;
    }
    QV_ASSERT(o == NULL, "C09: list holds nothing beyond the ideal sequence");
    QV_ASSERT(l->last == prev && (m->n > 0 || l->first == NULL), "C09: INV last pointer is the final element");
    QV_ASSERT(l->datasum == sum, "C09: total byte size is exact");
    QV_ASSERT(l->max == s->max, "C09: size limit untouched");
}
#ifdef QV_C13
#define LOCK_BALANCED(s) do { C13_SETTLE(); QV_ASSERT(gh_lock_depth == (s).depth0 && gh_lock_outer <= 1, "C13: all shared accesses of the operation lie in ONE critical section, which is released on return"); gh_lock_outer = 0; } while (0)
#else
#define LOCK_BALANCED(s) QV_ASSERT(gh_lock_depth == (s).depth0, "C14: lock depth on return equals depth on entry")
#endif

#ifdef VARIANT
#define VARIANT_IN(maxv) const int variant = VARIANT
#else
#define VARIANT_IN(maxv) QV_IN(int, variant); QV_ASSUME(variant >= 0 && variant <= (maxv))
#endif

/* ------------------------------------------------------------ addat / addfirst / addlast (+ queue push, stack push, grow add) */
void h_add(void) {
    struct lstate s = mk();
    qlist_t *l = s.l;
    QV_IN(int, index);
    QV_IN(size_t, esz);
    QV_ASSUME(index >= -(LN + 3) && index <= LN + 3 && esz <= ESZ);
    uchar *e = malloc(ESZ); QV_ASSUME(e != NULL);
    QV_IN_BYTES(e, ESZ);
    uchar copy[ESZ]; for (size_t b = 0; b < ESZ; b++) copy[b] = e[b];
    VARIANT_IN(2);
    long long pos = index < 0 ? (long long)LN + index + 1 : index;       /* -1 == append */
    bool inrange = pos >= 0 && pos <= LN;
    bool full = s.max > 0 && LN >= s.max;
    C13_BEGIN(l);
    errno = 0;
    bool r;
    if (variant == 1) { QV_ASSUME(index == 0); r = qlist_addfirst(l, e, esz); }
    else if (variant == 2) { QV_ASSUME(index == -1); r = qlist_addlast(l, e, esz); }
    else r = qlist_addat(l, index, e, esz);
    LOCK_BALANCED(s);
    struct model m = s.m;
    if (esz == 0) {
        QV_ASSERT(!r && errno == EINVAL, "C09: zero-size element is refused");
        check(&s, &m);
    } else if (full) {
        QV_ASSERT(!r && errno == ENOBUFS, "C09: insertion beyond the configured maximum is refused with ENOBUFS");
        check(&s, &m);
        QV_REACH("add refused: full");
    } else if (!inrange) {
        QV_ASSERT(!r && errno == ERANGE, "C09: out-of-range insertion index is refused with ERANGE");
        check(&s, &m);
        QV_REACH("add refused: range");
    } else if (!r) {
        QV_ASSERT(errno == ENOMEM, "C15: a valid insertion fails only on allocation failure");
        check(&s, &m);
        QV_REACH("add allocation failure");
    } else {
        /* scribble the caller's buffer: the list must own a private copy */
        for (size_t b = 0; b < ESZ; b++) e[b] ^= 0xff;
        for (size_t i = LN; i > (size_t)pos; i--) { m.size[i] = m.size[i - 1]; for (size_t b = 0; b < ESZ; b++) m.data[i][b] = m.data[i - 1][b]; }
        m.size[pos] = esz; for (size_t b = 0; b < ESZ; b++) m.data[pos][b] = copy[b];
        m.n = LN + 1;
        check(&s, &m);
        QV_REACH("add done");
    }
    free(e);
    qlist_free(l);
    QV_END();
}

/* ------------------------------------------------------------ getat/getfirst/getlast, popat/..., removeat/... */
void h_access(void) {
    struct lstate s = mk();
    qlist_t *l = s.l;
    QV_IN(int, index);
    QV_ASSUME(index >= -(LN + 3) && index <= LN + 3);
    QV_IN(bool, newmem);
    QV_IN(bool, wantsize);
    VARIANT_IN(8);      /* 0..2 get at/first/last, 3..5 pop at/first/last, 6..8 remove at/first/last */
    int kind = variant / 3, how = variant % 3;
    if (how == 1) QV_ASSUME(index == 0);
    if (how == 2) QV_ASSUME(index == -1);
    long long pos = index < 0 ? (long long)LN + index : index;
    bool valid = pos >= 0 && pos < LN;
    size_t sz = 777;
    void *p = NULL; bool r = false;
    qlist_obj_t *node = NULL;
    if (valid) { node = l->first; for (long long i = 0; i < pos; i++) node = node->next; }
    void *internal = node ? node->data : NULL;
    C13_BEGIN(l);
    errno = 0;
    if (kind == 0) p = how == 0 ? qlist_getat(l, index, wantsize ? &sz : NULL, newmem) : how == 1 ? qlist_getfirst(l, wantsize ? &sz : NULL, newmem) : qlist_getlast(l, wantsize ? &sz : NULL, newmem);
    else if (kind == 1) p = how == 0 ? qlist_popat(l, index, wantsize ? &sz : NULL) : how == 1 ? qlist_popfirst(l, wantsize ? &sz : NULL) : qlist_poplast(l, wantsize ? &sz : NULL);
    else r = how == 0 ? qlist_removeat(l, index) : how == 1 ? qlist_removefirst(l) : qlist_removelast(l);
    LOCK_BALANCED(s);
    struct model m = s.m;
    bool copy = kind == 1 || (kind == 0 && newmem);
    if (!valid) {
        QV_ASSERT(p == NULL && !r && errno == ERANGE, "C09: out-of-range access/removal is refused with ERANGE");
        check(&s, &m);
        QV_REACH("access refused");
    } else if (kind != 2 && p == NULL) {
        QV_ASSERT(copy && errno == ENOMEM, "C15: a valid access fails only when the copy could not be allocated");
        check(&s, &m);
    } else {
        if (kind != 2) {
            QV_ASSERT(!wantsize || sz == m.size[pos], "C09: reported size is the exact element size");
            for (size_t b = 0; b < ESZ; b++) if (b < m.size[pos]) QV_ASSERT(((uchar *)p)[b] == m.data[pos][b], "C09,C12: returned bytes are exactly those of the addressed element");
            if (copy) {
                QV_ASSERT(p != internal, "C12: copy is an independent allocation");
#ifndef QV_NATIVE
                QV_ASSERT(QV_OBJECT_SIZE(p) == m.size[pos] && QV_POINTER_OFFSET(p) == 0, "C12: copy is a fresh exactly-sized object");
#endif
            } else QV_ASSERT(p == internal, "C09: non-copy access returns the stored buffer of exactly that element");
        } else QV_ASSERT(r, "C09: in-range removal succeeds");
        if (kind != 0) {
            for (size_t i = (size_t)pos; i + 1 < LN + 1; i++) { m.size[i] = m.size[i + 1]; for (size_t b = 0; b < ESZ; b++) m.data[i][b] = m.data[i + 1][b]; }
            m.n = LN - 1;
        }
        check(&s, &m);
        if (copy) free(p);
        QV_REACH("access done");
    }
    /* ownership: releasing the list must release everything, including what a removal unlinked
     * (memory-leak obligation of this group) */
    qlist_free(l);
    QV_END();
}

/* ------------------------------------------------------------ size, datasize, setsize, reverse, getnext walk, clear, free */
void h_walk_reverse_clear(void) {
    struct lstate s = mk();
    qlist_t *l = s.l;
    struct model m = s.m;
    size_t sum = 0; for (size_t i = 0; i < LN; i++) sum += m.size[i];
    QV_ASSERT(qlist_size(l) == LN && qlist_datasize(l) == sum, "C09: size and datasize are exact");
    /* forward walk from a zeroed cursor */
    QV_IN(bool, newmem);
    qlist_obj_t cur; memset(&cur, 0, sizeof cur);
    for (size_t i = 0; i < LN; i++) {
        bool r = qlist_getnext(l, &cur, newmem);
        LOCK_BALANCED(s);
        if (!r) { QV_ASSERT(newmem && errno != ENOENT, "C15: walk step fails only on allocation failure"); goto out; }
        QV_ASSERT(cur.size == m.size[i], "C09: walk yields the elements in exact order (size)");
        for (size_t b = 0; b < ESZ; b++) if (b < m.size[i]) QV_ASSERT(((uchar *)cur.data)[b] == m.data[i][b], "C09: walk yields the elements in exact order (bytes)");
        if (newmem) free(cur.data);
    }
    errno = 0;
    QV_ASSERT(!qlist_getnext(l, &cur, newmem) && errno == ENOENT, "C09: walk reports the end after the last element");
    LOCK_BALANCED(s);
    check(&s, &m);
    /* reverse */
    qlist_reverse(l);
    LOCK_BALANCED(s);
    struct model rv = m;
    for (size_t i = 0; i < LN; i++) { rv.size[i] = m.size[LN - 1 - i]; for (size_t b = 0; b < ESZ; b++) rv.data[i][b] = m.data[LN - 1 - i][b]; }
    check(&s, &rv);
    QV_IN(size_t, newmax);
    QV_ASSERT(qlist_setsize(l, newmax) == s.max && l->max == newmax, "C09: setsize returns the old limit and installs the new one");
    s.max = newmax;
    LOCK_BALANCED(s);
    check(&s, &rv);
    /* clear */
    qlist_clear(l);
    LOCK_BALANCED(s);
    struct model em = rv; em.n = 0;
    check(&s, &em);
out:
    qlist_free(l);          /* leak obligation of this group: everything is released */
    QV_END();
}

/* ------------------------------------------------------------ toarray / tostring (+ grow) */
void h_flatten(void) {
    struct lstate s = mk();
    qlist_t *l = s.l;
    struct model m = s.m;
    size_t sum = 0; for (size_t i = 0; i < LN; i++) sum += m.size[i];
    QV_IN(bool, wantsize);
    size_t n = 4242;
    C13_BEGIN(l);
    errno = 0;
    uchar *a = qlist_toarray(l, wantsize ? &n : NULL);
    LOCK_BALANCED(s);
    check(&s, &m);
    if (LN == 0) QV_ASSERT(a == NULL && errno == ENOENT && (!wantsize || n == 0), "C09: flattening an empty list reports ENOENT");
    else if (a == NULL) QV_ASSERT(errno == ENOMEM, "C15: toarray fails only on allocation failure");
    else {
        QV_ASSERT(!wantsize || n == sum, "C09: toarray reports the exact total size");
#ifndef QV_NATIVE
        QV_ASSERT(QV_OBJECT_SIZE(a) == sum, "C12: array is a fresh exactly-sized object");
#endif
        size_t off = 0;
        for (size_t i = 0; i < LN; i++) { for (size_t b = 0; b < ESZ; b++) if (b < m.size[i]) QV_ASSERT(a[off + b] == m.data[i][b], "C09: toarray concatenates the elements in order"); off += m.size[i]; }
        free(a);
        QV_REACH("toarray done");
    }
    C13_BEGIN(l);
    errno = 0;
    char *str = qlist_tostring(l);
    LOCK_BALANCED(s);
    check(&s, &m);
    if (LN == 0) QV_ASSERT(str == NULL && errno == ENOENT, "C09: tostring of an empty list reports ENOENT");
    else if (str == NULL) QV_ASSERT(errno == ENOMEM, "C15: tostring fails only on allocation failure");
    else {
        size_t off = 0;
        for (size_t i = 0; i < LN; i++) {
            size_t es = m.size[i];
            if (m.data[i][es - 1] == 0) es--;           /* one trailing NUL per element is not copied */
            for (size_t b = 0; b < ESZ; b++) if (b < es) QV_ASSERT((uchar)str[off + b] == m.data[i][b], "C09: tostring concatenates the elements in order without their trailing NUL");
            off += es;
        }
        QV_ASSERT(str[off] == '\0', "C09: tostring result is terminated right after the last piece");
        free(str);
        QV_REACH("tostring done");
    }
    qlist_free(l);
    QV_END();
}

/* ------------------------------------------------------------ queue FIFO / stack LIFO / grow: wrappers over the list */
void h_wrappers(void) {
    QV_IN(bool, ts);
    gh_lock_depth = 0; gh_lock_acquired = 0; gh_lock_outer = 0;
    uchar e1[ESZ], e2[ESZ];
    QV_IN_BYTES(e1, ESZ); QV_IN_BYTES(e2, ESZ);
#ifndef QV_NATIVE
    for (int b = 0; b < ESZ; b++) { e1[b] = nondet_uchar(); e2[b] = nondet_uchar(); }
#endif
    QV_IN(size_t, s1); QV_IN(size_t, s2);
    QV_ASSUME(s1 >= 1 && s1 <= ESZ && s2 >= 1 && s2 <= ESZ);
    size_t sz;
    VARIANT_IN(2);     /* 0 queue, 1 stack, 2 grow */
    qqueue_t *q = variant == 0 ? qqueue(ts ? QQUEUE_THREADSAFE : 0) : NULL;
    if (q != NULL) {
        if (qqueue_push(q, e1, s1) && qqueue_push(q, e2, s2)) {
            QV_ASSERT(qqueue_size(q) == 2, "C09: queue size counts the pushed elements");
            uchar *p = qqueue_pop(q, &sz);
            if (p != NULL) {
                QV_ASSERT(sz == s1 && p[0] == e1[0], "C09: queue returns elements first-in-first-out");
                free(p);
#if !defined(VARIANT) || VARIANT == 0
                QV_REACH("queue fifo");
#endif
            }
        }
        qqueue_free(q);
    }
    QV_ASSERT(gh_lock_depth == 0, "C14: queue operations leave the lock released");
    qstack_t *st = variant == 1 ? qstack(ts ? QSTACK_THREADSAFE : 0) : NULL;
    if (st != NULL) {
        if (qstack_push(st, e1, s1) && qstack_push(st, e2, s2)) {
            uchar *p = qstack_pop(st, &sz);
            if (p != NULL) {
                QV_ASSERT(sz == s2 && p[0] == e2[0], "C09: stack returns elements last-in-first-out");
                free(p);
#if !defined(VARIANT) || VARIANT == 1
                QV_REACH("stack lifo");
#endif
            }
        }
        qstack_free(st);
    }
    QV_ASSERT(gh_lock_depth == 0, "C14: stack operations leave the lock released");
    qgrow_t *g = variant == 2 ? qgrow(ts ? QGROW_THREADSAFE : 0) : NULL;
    if (g != NULL) {
        /* string pieces are added WITHOUT their terminator: exact byte total and exact concatenation */
        char piece[3]; QV_IN(char, pc); QV_ASSUME(pc != 0); piece[0] = pc; piece[1] = 'z'; piece[2] = 0;
        if (qgrow_addstr(g, piece)) {
            QV_ASSERT(qgrow_size(g) == 1 && qgrow_datasize(g) == 2, "C09: a string piece contributes exactly its strlen bytes");
            size_t tsz = 0;
            uchar *ta = qgrow_toarray(g, &tsz);
            if (ta != NULL) { QV_ASSERT(tsz == 2 && ta[0] == (uchar)pc && ta[1] == 'z', "C09: grow buffer flattens string pieces to exactly their characters"); free(ta); }
            qgrow_clear(g);
            QV_ASSERT(qgrow_size(g) == 0 && qgrow_datasize(g) == 0, "C09: clear empties the grow buffer");
        }
        if (qgrow_add(g, e1, s1) && qgrow_add(g, e2, s2)) {
            uchar *a = qgrow_toarray(g, &sz);
            if (a != NULL) {
                QV_ASSERT(sz == s1 + s2 && a[0] == e1[0] && a[s1] == e2[0], "C09: grow buffer concatenates its pieces in order of addition");
                free(a);
#if !defined(VARIANT) || VARIANT == 2
                QV_REACH("grow concat");
#endif
            }
        }
        qgrow_free(g);
    }
    QV_ASSERT(gh_lock_depth == 0, "C14: grow operations leave the lock released");
    QV_END();
}
