/*
 * Lock balance of the qlog extension (C14): write / duplicate / flush / free on every logger state
 * (file open or not, duplicate stream or not, flush flags, rotation due or not), thread-safe or not.
 * stdio, time and fchmod are assumed contracts (nondeterministic results, no effect on the logger object).
 * writef (vsnprintf) is outside the claim; it only formats and calls write.
 */
#include "qv.h"
#include "qv_pthread.h"
#include <time.h>
#include <sys/stat.h>
#include <limits.h>
#ifndef QV_NATIVE
/* assumed contracts of the I/O and time dependencies */
static FILE gh_files[3];
static int gh_nfile;
/* wall-clock seconds: any value a real clock can show for the next ~30000 years */
time_t time(time_t *t) { time_t v = nondet_long(); __CPROVER_assume(v >= 0 && v < ((time_t)1 << 40)); if (t) *t = v; return v; }
static struct tm gh_tm;
struct tm *localtime(const time_t *t) { return &gh_tm; }
struct tm *gmtime(const time_t *t) { return &gh_tm; }
time_t mktime(struct tm *tm) { time_t v = nondet_long(); __CPROVER_assume(v >= -1 && v < ((time_t)1 << 40)); return v; }
size_t strftime(char *s, size_t max, const char *fmt, const struct tm *tm) { if (max > 0) { s[0] = nondet_char(); if (max > 1) s[1] = 0; else s[0] = 0; } return 1; }
FILE *fopen(const char *path, const char *mode) { if (nondet_bool() || gh_nfile >= 3) return NULL; return &gh_files[gh_nfile++]; }
int fclose(FILE *f) { return nondet_bool() ? 0 : -1; }
int fflush(FILE *f) { return nondet_bool() ? 0 : -1; }
int fileno(FILE *f) { return 3; }
int fchmod(int fd, mode_t m) { return 0; }
int fprintf(FILE *f, const char *fmt, ...) { return nondet_bool() ? 1 : -1; }
#endif
#include "src/utilities/qstring.c"
#include "src/extensions/qlog.c"

void h_qlog(void) {
    QV_IN(bool, ts); QV_IN(bool, open); QV_IN(bool, dup); QV_IN(bool, lf); QV_IN(bool, of);
    QV_IN(int, interval); QV_IN(long, nextrotate); QV_IN(int, depth0); QV_IN(int, op);
    QV_ASSUME(depth0 >= 0 && depth0 <= 2 && op >= 0 && op <= 3 && interval >= 0 && interval <= 366 * 86400);
    qlog_t *log = QV_ALLOC(sizeof *log);
#ifndef QV_NATIVE
    static FILE f1, f2;
    log->fp = open ? &f1 : NULL;
    log->outfp = dup ? &f2 : NULL;
#else
    log->fp = open ? stderr : NULL; log->outfp = dup ? stderr : NULL;
#endif
    log->logflush = lf; log->outflush = of; log->rotateinterval = interval; log->nextrotate = nextrotate;
    log->filepathfmt[0] = 'x'; log->filepathfmt[1] = 0; log->filepath[0] = 'y'; log->filepath[1] = 0;
    log->qmutex = ts ? QV_ALLOC(sizeof(qmutex_t)) : NULL;
    gh_lock_depth = depth0; gh_lock_acquired = 0; gh_lock_outer = 0;
    if (op == 0) {
        bool r = write_(log, "m");
        QV_ASSERT(open || !r, "C14: write on a logger without an open file is refused");
        QV_REACH("qlog write");
    } else if (op == 1) {
        QV_ASSERT(duplicate(log, NULL, lf), "C14: duplicate succeeds");
    } else if (op == 2) {
        flush_(log);
    } else {
        free_(log);
        log = NULL;
        QV_REACH("qlog free");
    }
    QV_ASSERT(gh_lock_depth == depth0, "C14: lock depth on return equals depth on entry");
    QV_ASSERT(!write_(NULL, "m") && !duplicate(NULL, NULL, false) && !flush_(NULL), "C14: NULL logger is refused");
    QV_ASSERT(gh_lock_depth == depth0, "C14: refused calls leave the lock depth unchanged");
    if (log != NULL) { free(log->qmutex); free(log); }
    QV_END();
}

/* constructor: thread-safe option creates the mutex, failure paths release everything and hold no lock */
void h_qlog_ctor(void) {
    QV_IN(int, opt); QV_IN(int, interval);
    QV_ASSUME(opt >= 0 && opt < 4 && interval <= 366 * 86400);
    gh_lock_depth = 0; gh_lock_acquired = 0; gh_lock_outer = 0;
    qlog_t *log = qlog("x", 0644, interval, opt);
    QV_ASSERT(gh_lock_depth == 0, "C14: constructor holds no lock on return");
    if (log != NULL) {
        QV_ASSERT(((opt & QLOG_OPT_THREADSAFE) != 0) == (log->qmutex != NULL) && log->fp != NULL, "C14: thread-safe option creates the mutex; the file is open");
        log->free(log);
        QV_ASSERT(gh_lock_depth == 0, "C14: free holds no lock on return");
    }
    QV_END();
}
