/*
 * Bounded stand-ins for qstring.c (C19, C11): every function is compared with an independent
 * executable reference on EVERY buffer of SN bytes (all 256 byte values, so every string of length
 * <= SN including ones with blanks, delimiters, quotes, both cases, bytes >= 0x80), exactly-sized
 * buffers, all loops completely unwound (unwinding assertions on).  SN is a per-instance constant.
 */
#include "qv.h"
typedef unsigned char uchar;
#ifndef SN
#define SN 4
#endif
#ifndef TN
#define TN 2
#endif
#ifndef WN
#define WN 2
#endif
/* strlen through a table of strings whose length is a per-instance constant BY CONSTRUCTION (the
 * harness assumes no interior NUL and stores the terminator itself, and asserts both at registration).
 * This keeps allocation sizes computed from strlen() concrete; unregistered strings are measured. */
static const char *qv_sl_p[4];
static size_t qv_sl_n[4];
static size_t qv_strlen(const char *p) {
    for (int i = 0; i < 4; i++) if (qv_sl_p[i] != NULL && p == qv_sl_p[i]) return qv_sl_n[i];
    size_t n = 0;
    while (p[n] != '\0') n++;
    return n;
}
static void qv_register(int slot, const char *p, size_t n) {
    for (size_t i = 0; i < n; i++) QV_ASSUME(p[i] != '\0');
    QV_ASSERT(p[n] == '\0', "C19: harness: registered string is terminated at its constant length");
    qv_sl_p[slot] = p; qv_sl_n[slot] = n;
}
#define strlen qv_strlen
#ifndef QV_NATIVE
/* assumed libc contract (cbmc has no model): strstr returns the first occurrence of needle */
char *strstr(const char *h, const char *n) {
    for (size_t i = 0;; i++) {
        size_t j = 0;
        while (n[j] != '\0' && h[i + j] == n[j]) j++;
        if (n[j] == '\0') return (char *)h + i;
        if (h[i + j] == '\0') return NULL;
    }
}
#endif
#include "src/utilities/qstring.c"

static bool isblank4(char c) { return c == ' ' || c == '\t' || c == '\r' || c == '\n'; }
static size_t rlen(const char *s) { size_t n = 0; while (s[n]) n++; return n; }
static bool req(const char *a, const char *b) { size_t i = 0; for (;; i++) { if (a[i] != b[i]) return false; if (!a[i]) return true; } }

/* CBMC's memory model cannot represent the one-before-the-start pointer that the backward scans of
 * qstrtrim/qstrtrim_tail/qstrrev form (and never dereference) on empty or all-blank strings.  The
 * string therefore sits one byte into its allocation; the byte in front has an arbitrary value, so
 * any result that depended on it fails the reference comparison, and it is asserted unchanged. */
#define ALLOC_STR(s, n) char *s##_base = malloc((n) + 2); QV_ASSUME(s##_base != NULL); \
    QV_IN(char, s##_guard); s##_base[0] = s##_guard; char *s = s##_base + 1
#define RELEASE_STR(s) do { QV_ASSERT(s##_base[0] == s##_guard, "C19: no write in front of the buffer"); free(s##_base); } while (0)

static void fill(char *buf, size_t n) {
#ifdef QV_NATIVE
    QV_IN_BYTES(buf, n);
#else
    for (size_t i = 0; i < n; i++) buf[i] = nondet_char();
#endif
    buf[n] = '\0';
}

/* ------------------------------------------------------------ trim / trim_head / trim_tail */
void h_trim(void) {
    ALLOC_STR(s, SN);
    fill(s, SN);
    char ref[SN + 1], orig[SN + 1];
    for (size_t i = 0; i <= SN; i++) orig[i] = s[i];
    QV_IN(int, which);
    QV_ASSUME(which >= 0 && which <= 2);
    size_t n = rlen(orig), a = 0, b = n;
    if (which != 2) while (a < n && isblank4(orig[a])) a++;
    if (which != 1) while (b > a && isblank4(orig[b - 1])) b--;
    for (size_t i = a; i < b; i++) ref[i - a] = orig[i];
    ref[b - a] = '\0';
    char *r = which == 0 ? qstrtrim(s) : which == 1 ? qstrtrim_head(s) : qstrtrim_tail(s);
    QV_ASSERT(r == s, "C19: trim returns its argument");
    QV_ASSERT(req(s, ref), "C19: trim removes precisely the leading/trailing blanks, tabs, CRs and LFs");
    QV_ASSERT(qstrtrim(NULL) == NULL && qstrtrim_head(NULL) == NULL && qstrtrim_tail(NULL) == NULL, "C19: NULL is passed through");
    RELEASE_STR(s);
    QV_END();
}

/* ------------------------------------------------------------ upper / lower / rev / unchar */
void h_case_rev_unchar(void) {
    ALLOC_STR(s, SN);
    fill(s, SN);
    char orig[SN + 1], ref[SN + 1];
    for (size_t i = 0; i <= SN; i++) orig[i] = s[i];
    size_t n = rlen(orig);
    QV_IN(int, which);
    QV_ASSUME(which >= 0 && which <= 3);
    if (which == 0) {
        for (size_t i = 0; i <= n; i++) ref[i] = (orig[i] >= 'a' && orig[i] <= 'z') ? orig[i] - 32 : orig[i];
        QV_ASSERT(qstrupper(s) == s && req(s, ref), "C19: upper converts exactly a-z");
    } else if (which == 1) {
        for (size_t i = 0; i <= n; i++) ref[i] = (orig[i] >= 'A' && orig[i] <= 'Z') ? orig[i] + 32 : orig[i];
        QV_ASSERT(qstrlower(s) == s && req(s, ref), "C19: lower converts exactly A-Z");
    } else if (which == 2) {
        for (size_t i = 0; i < n; i++) ref[i] = orig[n - 1 - i];
        ref[n] = '\0';
        QV_ASSERT(qstrrev(s) == s && req(s, ref), "C19: rev reverses the string");
    } else {
        QV_IN(char, head); QV_IN(char, tail);
        char *r = qstrunchar(s, head, tail);
        if (n >= 2 && orig[0] == head && orig[n - 1] == tail) {
            for (size_t i = 1; i + 1 < n; i++) ref[i - 1] = orig[i];
            ref[n - 2] = '\0';
            QV_ASSERT(r == s && req(s, ref), "C19: unchar strips exactly the given first and last character");
        } else {
            QV_ASSERT(r == NULL && req(s, orig), "C19: unchar refuses and leaves the string untouched when the quotes do not match");
        }
    }
    RELEASE_STR(s);
    QV_END();
}

/* ------------------------------------------------------------ qstrcpy / qstrncpy: all sizes 0..SN+2 */
void h_copy(void) {
    char src[SN + 1];
    fill(src, SN);
    QV_IN(size_t, size);
    QV_IN(size_t, nbytes);
    QV_IN(bool, ncpy);
    QV_ASSUME(size <= SN + 2 && nbytes <= SN);
    size_t sl = rlen(src);
    if (ncpy) QV_ASSUME(nbytes <= sl);      /* qstrncpy's contract: at most nbytes readable bytes of src */
    /* destination is exactly `size` bytes: any write at or beyond `size` is an out-of-bounds obligation */
    char *dst = malloc(size ? size : 1); QV_ASSUME(dst != NULL);
    if (size) dst[0] = 'X';
    char *r = ncpy ? qstrncpy(dst, size, src, nbytes) : qstrcpy(dst, size, src);
    QV_ASSERT(r == dst, "C19: copy returns the destination");
    if (size > 0) {
        size_t want = ncpy ? nbytes : sl;
        if (want >= size) want = size - 1;
        QV_ASSERT(dst[want] == '\0', "C19: bounded copy always NUL-terminates inside the stated size");
        for (size_t i = 0; i < want; i++) QV_ASSERT(dst[i] == src[i], "C19: bounded copy copies min(len, size-1) bytes");
    }
    free(dst);
    QV_END();
}

/* ------------------------------------------------------------ qstrgets: line reader */
void h_gets(void) {
    char text[SN + 1];
    fill(text, SN);
    QV_IN(size_t, size);
    QV_IN(size_t, start);
    QV_ASSUME(size >= 1 && size <= SN + 2 && start <= SN);
    QV_ASSUME(start <= rlen(text));
    char *buf = malloc(size); QV_ASSUME(buf != NULL);
    char *off = text + start;
    /* reference: copy up to size-1 stored characters, skipping CR, stopping after LF */
    char ref[SN + 2]; size_t w = 0, i, p = start;
    for (i = 0; text[p] != '\0' && i < size - 1; i++, p++) {
        if (text[p] == '\r') continue;
        if (text[p] == '\n') { p++; break; }
        ref[w++] = text[p];
    }
    ref[w] = '\0';
    char *r = qstrgets(buf, size, &off);
    if (text[start] == '\0') {
        QV_ASSERT(r == NULL && off == text + start, "C19: line reader reports the end at the terminator");
    } else {
        QV_ASSERT(r == buf && req(buf, ref), "C19: line reader returns the line without CR/LF, never more than size-1 characters");
        QV_ASSERT(off == text + p, "C19: line reader resumes right after the consumed characters");
    }
    free(buf);
    QV_END();
}

/* ------------------------------------------------------------ qstrreplace, four modes */
static size_t ref_replace(char method, const char *src, const char *tok, const char *word, char *out) {
    size_t w = 0;
    const size_t sl = SN, tl = TN, wl = WN;     /* exact lengths by construction */
    for (size_t i = 0; i < sl;) {
        bool hit = false;
        if (method == 't') {
            for (size_t j = 0; j < tl; j++) if (src[i] == tok[j]) hit = true;
            if (hit) { for (size_t k = 0; k < wl; k++) out[w++] = word[k]; } else out[w++] = src[i];
            i++;
        } else {
            hit = i + tl <= sl;
            for (size_t j = 0; hit && j < tl; j++) if (src[i + j] != tok[j]) hit = false;
            if (hit) { for (size_t k = 0; k < wl; k++) out[w++] = word[k]; i += tl; } else out[w++] = src[i++];
        }
    }
    out[w] = '\0';
    return w;
}

void h_replace(void) {
    /* exact lengths SN / TN / WN (per-instance constants, instances cover every combination) */
    char tok[TN + 1], word[WN + 1], orig[SN + 1];
    fill(tok, TN); fill(word, WN); fill(orig, SN);
#ifdef TMODE
    const bool tmode = TMODE;
#else
    QV_IN(bool, tmode);
#endif
    QV_IN(bool, inplace);
    char mode[3]; mode[0] = tmode ? 't' : 's'; mode[1] = inplace ? 'r' : 'n'; mode[2] = 0;
    for (int i = 0; i < 4; i++) qv_sl_p[i] = NULL;
    qv_register(0, tok, TN); qv_register(1, word, WN); qv_register(2, orig, SN);
    char ref[SN * (WN ? WN : 1) + 1];
    size_t rl = ref_replace(mode[0], orig, tok, word, ref);
    /* in-place: the documented contract is "source string should have enough space": max(SN, result) + 1 */
    char *src = malloc((SN * (WN ? WN : 1)) + 1); QV_ASSUME(src != NULL);
    for (size_t i = 0; i <= SN; i++) src[i] = orig[i];
    qv_sl_p[2] = src;
    char *r = qstrreplace(mode, src, tok, word);
    qv_sl_p[2] = NULL;
    if (r != NULL) {
        QV_ASSERT(req(r, ref), "C19: replace substitutes every leftmost non-overlapping occurrence (string mode) or every listed character (token mode) and nothing else");
        if (inplace) QV_ASSERT(r == src, "C19: in-place replace returns the source buffer");
        else {
            QV_ASSERT(r != src && req(src, orig), "C19: new-buffer replace leaves the source untouched");
#ifndef QV_NATIVE
            QV_ASSERT(QV_OBJECT_SIZE(r) >= rl + 1, "C19: result buffer holds the whole result");
#endif
            free(r);
        }
        QV_REACH("replace done");
    } else QV_ASSERT(req(src, orig), "C19: failed replace leaves the source untouched");
    QV_ASSERT(qstrreplace("xn", src, tok, word) == NULL && qstrreplace("t", src, tok, word) == NULL, "C19: unknown modes are refused");
    free(src);
    QV_END();
}

/* ------------------------------------------------------------ qstrtok: every field in order, incl. empty ones */
void h_tok(void) {
    char *s = malloc(SN + 1); QV_ASSUME(s != NULL);
    fill(s, SN);
    char orig[SN + 1], del[TN + 1];
    for (size_t i = 0; i <= SN; i++) orig[i] = s[i];
    fill(del, TN);
    size_t n = rlen(orig);
    int offset = 0;
    size_t pos = 0;           /* reference cursor */
    for (int round = 0; round <= SN + 1; round++) {
        char stop = 'Z';
        char *t = qstrtok(s, del, &stop, &offset);
        /* reference: field = orig[pos .. first delimiter or end) */
        size_t e = pos; bool isdel = false;
        while (e < n) {
            for (size_t j = 0; del[j]; j++) if (orig[e] == del[j]) isdel = true;
            if (isdel) break;
            e++;
        }
        if (pos >= n && !isdel) {
            QV_ASSERT(t == NULL && stop == '\0', "C19: tokenizer reports the end after the last field");
            break;
        }
        QV_ASSERT(t == s + pos, "C19: tokenizer returns the next field in order, including empty ones");
        QV_ASSERT(rlen(t) == e - pos, "C19: field ends at the first delimiter or the end");
        for (size_t i = pos; i < e; i++) QV_ASSERT(s[i] == orig[i], "C19: field characters are untouched");
        QV_ASSERT(stop == (isdel ? orig[e] : '\0'), "C19: tokenizer reports the delimiter that ended the field");
        QV_ASSERT((size_t)offset == (isdel ? e + 1 : e), "C19: tokenizer resumes after the delimiter");
        pos = isdel ? e + 1 : e;
        if (!isdel) { /* last field consumed: next call must end */ }
    }
    free(s);
    QV_END();
}

/* ------------------------------------------------------------ qstrdup_between / qmemdup */
void h_dup(void) {
    char str[SN + 1], st[TN + 1], en[TN + 1];
    fill(str, SN); fill(st, TN); fill(en, TN);
    char *r = qstrdup_between(str, st, en);
    /* reference */
    size_t n = rlen(str), sl = rlen(st), el = rlen(en);
    long sp = -1, ep = -1;
    for (size_t i = 0; i + sl <= n && sp < 0; i++) { bool m = true; for (size_t j = 0; j < sl; j++) if (str[i + j] != st[j]) m = false; if (m) sp = (long)(i + sl); }
    if (sp >= 0) for (size_t i = (size_t)sp; i + el <= n && ep < 0; i++) { bool m = true; for (size_t j = 0; j < el; j++) if (str[i + j] != en[j]) m = false; if (m) ep = (long)i; }
    if (sp < 0 || ep < 0) QV_ASSERT(r == NULL, "C19: dup_between returns NULL when a marker is missing");
    else if (r != NULL) {
        QV_ASSERT(rlen(r) == (size_t)(ep - sp), "C19: dup_between returns exactly the text between the first start marker and the next end marker");
        for (long i = sp; i < ep; i++) QV_ASSERT(r[i - sp] == str[i], "C19: dup_between copies the bytes between the markers");
        free(r);
    }
    uchar *m = qmemdup(str, SN + 1);
    if (m != NULL) {
        for (size_t i = 0; i <= SN; i++) QV_ASSERT(m[i] == (uchar)str[i], "C19,C12: memdup copies every byte");
#ifndef QV_NATIVE
        QV_ASSERT(QV_OBJECT_SIZE(m) == SN + 1 && !QV_SAME_OBJECT(m, str), "C12: memdup returns a fresh exactly-sized object");
#endif
        free(m);
    }
    QV_ASSERT(qmemdup(NULL, 3) == NULL && qmemdup(str, 0) == NULL, "C19: memdup refuses NULL and size 0");
    QV_END();
}
