/*
 * Unbounded contracts for the in-place routines of qstring.c (C19, C11) - carrier B, ghost index.
 *
 * Strings of ANY length (symbolic, up to 10^6; the cap only keeps size arithmetic in range) with
 * arbitrary byte content.  One arbitrary ghost position gh_k stands for "every character"; its
 * original content gh_c is recorded before the call.  Loops are closed by woven loop contracts
 * (weave/rules/qstring.json), memmove by the contract stub of stubs/qv_mem.h (region obligations,
 * exact copy at an arbitrary ghost offset), strlen by the contract stub below.
 *
 * strlen (assumed libc contract, weakened = over-approximated): the harness string has a NUL at
 * gh_len and NO NUL at the ghost positions the proof reads; every other byte is arbitrary (may even be
 * NUL).  The stub asserts that it is asked about the string under test (or a suffix) and returns the
 * distance to gh_len.  Every genuine string of length gh_len is among the harness strings and on those
 * the stub returns what strlen returns, so the contract holds for all of them.
 *
 * The string sits one byte into its allocation (CBMC cannot represent the one-before-the-start
 * pointer formed - never dereferenced - by the backward scans); the guard byte in front is arbitrary and
 * asserted unchanged, the object ends exactly after the terminator.
 */
#include "qv.h"
#include "qv_mem.h"
typedef unsigned char uchar;
size_t gh_k;      /* ghost position (index into the original string) */
size_t gh_len;    /* index of the terminator of the string under test */
char gh_c;        /* original character at gh_k */
char gh_d;        /* original character at the mirror position (qstrrev) */
size_t gh_a, gh_b, gh_end;  /* recorded by woven ghost statements: first kept, one past last kept, terminator found */
char gh_ca, gh_cb;          /* characters at gh_a and gh_b-1 when recorded */
char *gh_str;     /* the string under test */
size_t gh_j;      /* ghost OUTPUT position (qstrgets) */
char gh_guard;    /* the byte in front of it */
#define REL(p) ((long)__CPROVER_POINTER_OFFSET(p) - (long)__CPROVER_POINTER_OFFSET(gh_str))
#define BLANK(c) ((c) == ' ' || (c) == '\t' || (c) == '\r' || (c) == '\n')
#define UPC(c) ((char)(((c) >= 'a' && (c) <= 'z') ? (c) - 32 : (c)))
#define LOC(c) ((char)(((c) >= 'A' && (c) <= 'Z') ? (c) + 32 : (c)))

#ifndef QV_NATIVE
static size_t qv_strlen_ct(const char *s) {
    __CPROVER_assert(__CPROVER_same_object(s, gh_str) && REL(s) >= 0 && (size_t)REL(s) <= gh_len,
                     "C19: strlen is applied to the string under test (contract stub)");
    return gh_len - (size_t)REL(s);
}
#define strlen qv_strlen_ct
#endif
#include "src/utilities/qstring.c"

#define MK_STR(len)                                                               \
    QV_IN(size_t, len);                                                           \
    QV_ASSUME(len <= QV_CAP(1000000));                                            \
    char *base = malloc(len + 2);                                                 \
    QV_ASSUME(base != NULL);                                                      \
    QV_IN_BYTES(base, len + 1);                                                   \
    char guard = base[0];                                                         \
    char *s = base + 1;                                                           \
    s[len] = '\0';                                                                \
    gh_str = s; gh_len = len; gh_guard = guard;                                                   \
    QV_IN(size_t, k);                                                             \
    QV_ASSUME(k <= len);                                                          \
    gh_k = k; gh_c = s[k]
#define RELEASE()                                                                 \
    QV_ASSERT(base[0] == guard, "C19: no write in front of the buffer");          \
    free(base)

/* qstrupper / qstrlower: every character before the first NUL is converted iff it is a-z / A-Z,
 * everything from the first NUL on is untouched; the first NUL is where the scan stopped. */
void h_upper_lower(void) {
    MK_STR(len);
#ifndef WHICH
#define WHICH 0
#endif
    const int which = WHICH;   /* per-instance constant: 0 upper, 1 lower */
    char *r = which == 0 ? qstrupper(s) : qstrlower(s);
    QV_ASSERT(r == s, "C19: upper/lower return their argument");
    QV_ASSERT(gh_end <= len && s[gh_end] == '\0', "C19: the scan stopped at a terminator inside the buffer");
    if (k < gh_end) {
        QV_ASSERT(gh_c != '\0', "C19: the scan stopped at the FIRST terminator");
        QV_ASSERT(s[k] == (which == 0 ? UPC(gh_c) : LOC(gh_c)), "C19: upper/lower convert exactly a-z / A-Z and leave every other byte");
        QV_REACH("converted character");
    } else {
        QV_ASSERT(s[k] == gh_c, "C19: bytes at and after the terminator are untouched");
    }
    QV_ASSERT(qstrupper(NULL) == NULL && qstrlower(NULL) == NULL, "C19: NULL is passed through");
    RELEASE();
    QV_END();
}

/* qstrtrim_tail: result is the original up to and excluding the maximal blank suffix */
void h_trim_tail(void) {
    MK_STR(len);
    QV_ASSUME(k == len || gh_c != '\0');   /* genuine string: no NUL at the ghost position */
    char *r = qstrtrim_tail(s);
    QV_ASSERT(r == s, "C19: trim returns its argument");
    QV_ASSERT(gh_b <= len && s[gh_b] == '\0', "C19: trim_tail terminates the string at the cut");
    if (k < gh_b) QV_ASSERT(s[k] == gh_c, "C19: trim_tail keeps every character before the cut");
    if (k >= gh_b && k < len) { QV_ASSERT(BLANK(gh_c), "C19: trim_tail removes only blanks, tabs, CRs and LFs"); QV_REACH("trimmed blank"); }
    if (gh_b > 0) QV_ASSERT(!BLANK(gh_cb), "C19: trim_tail removes the MAXIMAL blank suffix");
    RELEASE();
    QV_END();
}

/* qstrtrim_head: result is the original from the first non-blank character on */
void h_trim_head(void) {
    MK_STR(len);
    QV_ASSUME(k == len || gh_c != '\0');
    char *r = qstrtrim_head(s);
    QV_ASSERT(r == s, "C19: trim returns its argument");
    QV_ASSERT(gh_a <= len && !BLANK(gh_ca), "C19: trim_head removes the MAXIMAL blank prefix");
    if (k < gh_a) { QV_ASSERT(BLANK(gh_c), "C19: trim_head removes only blanks, tabs, CRs and LFs"); QV_REACH("trimmed blank"); }
    if (gh_a > 0) {
        /* moved by memmove: the contract stub copies the byte at the arbitrary offset gh_off exactly */
        if (k >= gh_a && k - gh_a == gh_off) { QV_ASSERT(s[k - gh_a] == gh_c, "C19: trim_head moves every kept character (and the terminator) to the front"); QV_REACH("moved character"); }
    } else {
        QV_ASSERT(s[k] == gh_c, "C19: trim_head leaves a string without leading blanks untouched");
    }
    RELEASE();
    QV_END();
}

/* qstrtrim: original without the maximal blank prefix and the maximal blank suffix */
void h_trim(void) {
    MK_STR(len);
    char *r = qstrtrim(s);
    QV_ASSERT(r == s, "C19: trim returns its argument");
    QV_ASSERT(gh_a <= gh_b && gh_b <= gh_end && gh_end <= len, "C19: trim: cut points are ordered and inside the string");
    QV_ASSERT(!BLANK(gh_ca), "C19: trim removes the MAXIMAL blank prefix");
    if (gh_b > gh_a) QV_ASSERT(!BLANK(gh_cb), "C19: trim removes the MAXIMAL blank suffix");
    if (k < gh_a) QV_ASSERT(BLANK(gh_c), "C19: trim removes only blanks, tabs, CRs and LFs in front");
    if (k >= gh_a && k < gh_end) QV_ASSERT(gh_c != '\0', "C19: trim measures the string up to its FIRST terminator");
    if (k >= gh_b && k < gh_end) { QV_ASSERT(BLANK(gh_c), "C19: trim removes only blanks, tabs, CRs and LFs at the end"); QV_REACH("trimmed blank"); }
    if (gh_a > 0) {
        if (k >= gh_a && k < gh_b && k - gh_a == gh_off) { QV_ASSERT(s[k - gh_a] == gh_c, "C19: trim moves every kept character to the front"); QV_REACH("moved character"); }
        if (gh_b - gh_a == gh_off) QV_ASSERT(s[gh_b - gh_a] == '\0', "C19: trimmed string is terminated right after the kept part");
    } else {
        if (k < gh_b) QV_ASSERT(s[k] == gh_c, "C19: trim keeps every character between the cuts");
        QV_ASSERT(s[gh_b] == '\0', "C19: trimmed string is terminated right after the kept part");
    }
    if (k > gh_end) QV_ASSERT(s[k] == gh_c, "C19: nothing after the terminator is written");
    RELEASE();
    QV_END();
}

/* qstrrev: character k moves to len-1-k */
void h_rev(void) {
    MK_STR(len);
    QV_ASSUME(k < len || len == 0);
    if (len > 0) gh_d = s[len - 1 - k];
    char *r = qstrrev(s);
    QV_ASSERT(r == s, "C19: rev returns its argument");
    QV_ASSERT(s[len] == '\0', "C19: rev keeps the terminator");
    if (len > 0) {
        QV_ASSERT(s[len - 1 - k] == gh_c, "C19: rev moves character k to position len-1-k");
        QV_ASSERT(s[k] == gh_d, "C19: rev moves character len-1-k to position k");
        QV_REACH("reversed");
    }
    RELEASE();
    QV_END();
}

/* qstrunchar: strips exactly the first and last character when they match, otherwise refuses untouched */
void h_unchar(void) {
    MK_STR(len);
    QV_ASSUME(len <= 2147483647);
    QV_IN(char, head); QV_IN(char, tail);
    char c0 = s[0], cl = len > 0 ? s[len - 1] : 0;
    char *r = qstrunchar(s, head, tail);
    if (len >= 2 && c0 == head && cl == tail) {
        QV_ASSERT(r == s, "C19: unchar returns its argument when the quotes match");
        QV_ASSERT(s[len - 2] == '\0', "C19: unchar shortens the string by exactly two characters");
        if (k >= 1 && k + 1 < len && k - 1 == gh_off) { QV_ASSERT(s[k - 1] == gh_c, "C19: unchar strips exactly the given first and last character"); QV_REACH("unquoted"); }
    } else {
        QV_ASSERT(r == NULL && s[k] == gh_c, "C19: unchar refuses and leaves the string untouched when the quotes do not match");
    }
    RELEASE();
    QV_END();
}

/* qstrcpy / qstrncpy: dst is an object of EXACTLY size bytes; the result is always terminated inside
 * it, holds min(nbytes, size-1) leading bytes of src, and no byte at or beyond size is written
 * (bounds obligation on the exactly-sized object). */
void h_copy(void) {
    MK_STR(len);
    QV_IN(size_t, size);
    QV_ASSUME(size <= QV_CAP(1000000));
    char *dst = size ? malloc(size) : NULL;
    QV_ASSUME(size == 0 || dst != NULL);
    QV_IN(int, which);
    QV_ASSUME(which == 0 || which == 1);
    QV_IN(size_t, nb);
    size_t want;
    char *r;
    if (which == 0) { want = len; r = qstrcpy(dst, size, s); }
    else { QV_ASSUME(nb <= len); want = nb; r = qstrncpy(dst, size, s, nb); }
    QV_ASSERT(r == dst, "C19: copy returns the destination");
    if (size > 0) {
        size_t m = want >= size ? size - 1 : want;
        QV_ASSERT(dst[m] == '\0', "C19: copy always terminates the destination inside its size");
        if (k < m && k == gh_off) { QV_ASSERT(dst[k] == gh_c, "C19: copy transfers the leading min(n, size-1) bytes"); QV_REACH("copied byte"); }
    }
    QV_ASSERT(s[k] == gh_c, "C19: copy leaves the source untouched");
    QV_ASSERT(qstrcpy(NULL, 4, s) == NULL && qstrncpy(NULL, 4, s, 1) == NULL, "C19: NULL destination is passed through");
    if (dst) free(dst);
    RELEASE();
    QV_END();
}

/* qstrgets: reads one line from *offset into buf (an object of EXACTLY size bytes): never writes at or beyond size, always
 * terminates the output, consumes at most size-1 input characters and stops after the first LF or at the terminator; every
 * consumed character before the stop is neither LF nor NUL; the output never contains CR, LF or an inner NUL; the cursor
 * only moves forward inside the string. */
void h_gets(void) {
    MK_STR(len);
    QV_IN(size_t, size);
    QV_ASSUME(size >= 1 && size <= QV_CAP(1000000));
    char *buf = malloc(size);
    QV_ASSUME(buf != NULL);
    QV_IN(size_t, start);
    QV_ASSUME(start <= len);
    gh_a = start;
    QV_IN(size_t, j);
    gh_j = j;
    char *off = s + start;
    char first = *off;
    char *r = qstrgets(buf, size, &off);
    if (first == '\0') {
        QV_ASSERT(r == NULL && off == s + start, "C19: qstrgets at the end of the text returns NULL and leaves the cursor");
    } else {
        QV_ASSERT(r == buf, "C19: qstrgets returns the line buffer");
        QV_ASSERT(QV_SAME_OBJECT(off, s) && off >= s + start && (size == 1 || off > s + start) && off <= s + len, "C19: the cursor moves forward (unless the buffer holds only the terminator) and stays inside the text");
        size_t used = (size_t)(off - (s + start));
        QV_ASSERT(used <= size, "C19: at most size-1 characters plus the line feed are consumed");
        QV_ASSERT(gh_end < size && gh_end <= used && buf[gh_end] == '\0', "C19: the line is terminated inside the buffer and is not longer than the consumed text");
        if (j < gh_end) QV_ASSERT(buf[j] != '\r' && buf[j] != '\n' && buf[j] != '\0', "C19: the line contains no CR, LF or inner NUL");
        if (k >= start && k + 1 < start + used) QV_ASSERT(gh_c != '\n' && gh_c != '\0', "C19: the line ends at the FIRST line feed or terminator");
        QV_REACH("gets line");
    }
    QV_ASSERT(s[k] == gh_c, "C19: qstrgets leaves the text untouched");
    free(buf);
    RELEASE();
    QV_END();
}
