/*
 * Contracts for qlisttbl.c (C08, C11, C12, C14, C15).
 * State: EVERY list table of exactly TN entries (per-instance constant) under ANY of the 16 option
 * combinations (UNIQUE / CASEINSENSITIVE / INSERTTOP / LOOKUPFORWARD, symbolic) plus thread-safe or not;
 * names are one character from {a, A, b} (case-only differences and duplicates at head/middle/tail occur),
 * values 1..2 symbolic bytes.  A UNIQUE table holds no two entries equal under its comparison (INV_lt).
 * Built by direct construction; after the call the real list is walked and compared with the ideal multimap.
 */
#include "qv.h"
typedef unsigned char uchar;
#ifndef TN
#define TN 2
#endif
#define VSZ 2
#ifdef QV_C13
#define QV_LOCK_HOOKS
#endif
#include "qv_pthread.h"
/* hash dependency: deterministic function of the name (its own correctness is C18) */
uint32_t qhashmurmur3_32(const void *data, size_t nbytes) { return nbytes >= 1 ? 1000u + *(const uchar *)data : 7u; }
#include "src/containers/qlisttbl.c"

#ifdef QV_C13
/* C13 overlay (see harness/qvector/vector.c): num/first/last are poison while the table lock is not held */
static qlisttbl_t *c13_t; static size_t c13_num; static qlisttbl_obj_t *c13_first, *c13_last;
static void c13_reveal(void) { c13_t->num = c13_num; c13_t->first = c13_first; c13_t->last = c13_last; }
static void c13_hide(void) { c13_num = c13_t->num; c13_first = c13_t->first; c13_last = c13_t->last; c13_t->num = nondet_size_t(); c13_t->first = NULL; c13_t->last = NULL; }
void qv_on_acquire(void) { c13_reveal(); }
void qv_on_release(void) { c13_hide(); }
#define C13_BEGIN(t) do { c13_t = (t); gh_lock_outer = 0; c13_hide(); } while (0)
#define C13_SETTLE() c13_reveal()
#else
#define C13_BEGIN(t) do { } while (0)
#define C13_SETTLE() do { } while (0)
#endif
static const char NAMES[3] = { 'a', 'A', 'b' };
struct ent { int nm; size_t size; uchar data[VSZ]; };
struct model { size_t n; struct ent e[TN + 2]; };
struct lstate { qlisttbl_t *t; struct model m; bool unique, ci, top, fwd; int depth0; };

static bool eqname(const struct lstate *s, int a, int b) { return a == b || (s->ci && a <= 1 && b <= 1); }
/* order used by sort: strcmp / strcasecmp on one-character names */
static int cmpname(const struct lstate *s, int a, int b) {
    int ca = NAMES[a], cb = NAMES[b];
    if (s->ci) { if (ca == 'A') ca = 'a'; if (cb == 'A') cb = 'a'; }
    return ca - cb;
}

static struct lstate mk(void) {
    struct lstate s;
    QV_IN(bool, ts); QV_IN(bool, unique); QV_IN(bool, ci); QV_IN(bool, top); QV_IN(bool, fwd);
    qlisttbl_t *t = QV_ALLOC(sizeof *t);
    /* option-dependent fields exactly as the constructor sets them (group listtbl_ctor checks the constructor) */
    t->unique = unique; t->inserttop = top; t->lookupforward = fwd;
    t->namematch = ci ? namecasematch : namematch;
    t->namecmp = ci ? strcasecmp : strcmp;
    t->getnext = qlisttbl_getnext;
    t->qmutex = ts ? QV_ALLOC(sizeof(qmutex_t)) : NULL;
    s.unique = unique; s.ci = ci; s.top = top; s.fwd = fwd;
    s.m.n = TN;
    qlisttbl_obj_t *prev = NULL;
    for (size_t i = 0; i < TN; i++) {
        QV_IN(int, nm); QV_IN(size_t, vs);
        QV_ASSUME(nm >= 0 && nm < 3 && vs >= 1 && vs <= VSZ);
        if (unique) for (size_t j = 0; j < i; j++) QV_ASSUME(!eqname(&s, s.m.e[j].nm, nm));     /* INV_lt */
        qlisttbl_obj_t *o = QV_ALLOC(sizeof *o);
        char *name = QV_ALLOC(2); name[0] = NAMES[nm]; name[1] = 0;
        uchar *val = QV_ALLOC(vs);
        QV_IN_BYTES(val, vs);
        o->name = name; o->data = val; o->size = vs; o->hash = 1000u + (uchar)NAMES[nm];
        o->prev = prev; o->next = NULL;
        if (prev) prev->next = o; else t->first = o;
        t->last = o; prev = o;
        s.m.e[i].nm = nm; s.m.e[i].size = vs;
        for (int b = 0; b < VSZ; b++) s.m.e[i].data[b] = (size_t)b < vs ? val[b] : 0;
    }
    t->num = TN;
    QV_IN(int, depth0); QV_ASSUME(depth0 >= 0 && depth0 <= 2);
    gh_lock_depth = depth0; gh_lock_acquired = 0; gh_lock_outer = 0;
    s.t = t; s.depth0 = depth0;
#ifdef QV_C13
    QV_ASSUME(ts && depth0 == 0);
#endif
    return s;
}
#ifdef QV_C13
#define LOCK_BALANCED(s) do { C13_SETTLE(); QV_ASSERT(gh_lock_depth == (s).depth0 && gh_lock_outer <= 1, "C13: all shared accesses of the operation lie in ONE critical section, which is released on return"); gh_lock_outer = 0; } while (0)
#else
#define LOCK_BALANCED(s) QV_ASSERT(gh_lock_depth == (s).depth0, "C14: lock depth on return equals depth on entry")
#endif

static void check(struct lstate *s, const struct model *m) {
    qlisttbl_t *t = s->t;
    QV_ASSERT(t->num == m->n, "C08: size is exact");
    qlisttbl_obj_t *o = t->first, *prev = NULL;
    for (size_t i = 0; i < TN + 2; i++) {
        if (i >= m->n) break;
        QV_ASSERT(o != NULL, "C08: table holds every entry of the ideal multimap");
        if (o == NULL) return;
        QV_ASSERT(o->prev == prev, "C08: INV back link matches the forward order");
        QV_ASSERT(o->name != NULL && o->name[0] == NAMES[m->e[i].nm] && o->name[1] == 0, "C08: entries keep their order (name at this position)");
        QV_ASSERT(o->hash == 1000u + (uchar)o->name[0], "C08: INV stored hash is the hash of the name");
        QV_ASSERT(o->size == m->e[i].size, "C08: value length at this position is exact");
        for (int b = 0; b < VSZ; b++) if ((size_t)b < m->e[i].size) QV_ASSERT(((uchar *)o->data)[b] == m->e[i].data[b], "C08,C12: value bytes at this position are exact");
        prev = o; o = o->next;
    }
    QV_ASSERT(o == NULL && t->last == prev && (m->n > 0 || t->first == NULL), "C08: table holds nothing beyond the ideal multimap; last pointer is the final entry");
    QV_ASSERT(t->unique == s->unique && t->inserttop == s->top && t->lookupforward == s->fwd, "C08: options untouched");
    if (s->unique) for (size_t i = 0; i < m->n; i++) for (size_t j = 0; j < i; j++) QV_ASSERT(!eqname(s, m->e[i].nm, m->e[j].nm), "C08: a unique table never holds two equal keys");
}
static void model_remove_all(struct lstate *s, struct model *m, int nm) {
    size_t w = 0;
    for (size_t i = 0; i < m->n; i++) if (!eqname(s, m->e[i].nm, nm)) m->e[w++] = m->e[i];
    m->n = w;
}

/* ------------------------------------------------------------ put / putstr */
void h_put(void) {
    struct lstate s = mk();
    qlisttbl_t *t = s.t;
    QV_IN(int, nm); QV_IN(size_t, vs);
    QV_ASSUME(nm >= 0 && nm < 3 && vs >= 1 && vs <= VSZ);
    char *name = malloc(2); uchar *val = malloc(VSZ);
    QV_ASSUME(name != NULL && val != NULL);
    name[0] = NAMES[nm]; name[1] = 0;
    QV_IN_BYTES(val, VSZ);
    uchar c0 = val[0], c1 = val[1];
    C13_BEGIN(t);
    errno = 0;
    bool r = qlisttbl_put(t, name, val, vs);
    LOCK_BALANCED(s);
    struct model m = s.m;
    if (!r) {
        QV_ASSERT(errno == ENOMEM, "C15: put fails only on allocation failure");
        check(&s, &m);                              /* reported failure: contents exactly as before */
        QV_REACH("put allocation failure");
    } else {
        name[0] = '?'; val[0] ^= 0xff; val[1] ^= 0xff;
        if (s.unique) model_remove_all(&s, &m, nm);
        struct ent ne; ne.nm = nm; ne.size = vs; ne.data[0] = c0; ne.data[1] = c1;
        if (s.top) { for (size_t i = m.n; i > 0; i--) m.e[i] = m.e[i - 1]; m.e[0] = ne; }
        else m.e[m.n] = ne;
        m.n++;
        check(&s, &m);
        QV_REACH("put done");
    }
    free(name); free(val);
    QV_ASSERT(!qlisttbl_put(t, NULL, &c0, 1) && !qlisttbl_put(t, "a", NULL, 1) && !qlisttbl_put(t, "a", &c0, 0), "C08: invalid arguments are refused");
    LOCK_BALANCED(s);
    qlisttbl_free(t);
    QV_END();
}

/* ------------------------------------------------------------ get / getmulti / remove / size */
void h_get_remove(void) {
    struct lstate s = mk();
    qlisttbl_t *t = s.t;
    QV_IN(int, nm); QV_ASSUME(nm >= 0 && nm < 3);
    QV_IN(bool, newmem); QV_IN(bool, wantsize);
    char name[2]; name[0] = NAMES[nm]; name[1] = 0;
    struct model m = s.m;
#ifndef QV_C13
    QV_ASSERT(qlisttbl_size(t) == TN, "C08: size reports the entry count");
#endif
    /* expected matches in lookup order */
    int match[TN + 1]; size_t nmatch = 0;
    if (s.fwd) { for (size_t i = 0; i < TN; i++) if (eqname(&s, m.e[i].nm, nm)) match[nmatch++] = (int)i; }
    else { for (size_t i = TN; i > 0; i--) if (eqname(&s, m.e[i - 1].nm, nm)) match[nmatch++] = (int)(i - 1); }
    size_t sz = 999;
    C13_BEGIN(t);
    errno = 0;
    uchar *d = qlisttbl_get(t, name, wantsize ? &sz : NULL, newmem);
    LOCK_BALANCED(s);
    check(&s, &m);
    if (nmatch == 0) { QV_ASSERT(d == NULL && errno == ENOENT, "C08: get of an absent key reports ENOENT"); QV_REACH("get absent"); }
    else if (d == NULL) QV_ASSERT(newmem && errno == ENOMEM, "C15: get of a present key fails only when the copy cannot be allocated");
    else {
        QV_ASSERT(!wantsize || sz == m.e[match[0]].size, "C08: get returns the length of the first match in lookup direction");
        for (int b = 0; b < VSZ; b++) if ((size_t)b < m.e[match[0]].size) QV_ASSERT(d[b] == m.e[match[0]].data[b], "C08,C12: get returns the first match in lookup direction");
        if (newmem) free(d);
        QV_REACH("get present");
    }
    /* getmulti: all matches in lookup order */
    size_t cnt = 777;
    C13_BEGIN(t);
    errno = 0;
    qlisttbl_data_t *objs = qlisttbl_getmulti(t, name, newmem, &cnt);
    LOCK_BALANCED(s);
    check(&s, &m);
    if (objs != NULL) {
        QV_ASSERT(cnt == nmatch || (newmem && cnt < nmatch), "C08: getmulti returns all matches (fewer only when a copy could not be allocated)");
        for (size_t i = 0; i < TN; i++) if (i < cnt && i < nmatch) {
            QV_ASSERT(objs[i].size == m.e[match[i]].size && ((uchar *)objs[i].data)[0] == m.e[match[i]].data[0], "C08: getmulti returns the matches in lookup order");
        }
        qlisttbl_freemulti(objs);
        QV_REACH("getmulti done");
    } else QV_ASSERT(nmatch == 0 ? errno == ENOENT : (errno == ENOMEM || newmem), "C08,C15: getmulti returns NULL only when nothing matches (ENOENT), the result array could not be allocated (ENOMEM), or the copy of the first match could not be allocated");
    C13_BEGIN(t);
    size_t removed = qlisttbl_remove(t, name);
    LOCK_BALANCED(s);
    QV_ASSERT(removed == nmatch, "C08: remove deletes all matches and returns their number");
    model_remove_all(&s, &m, nm);
    check(&s, &m);
    qlisttbl_free(t);
    QV_END();
}

/* ------------------------------------------------------------ name-filtered / full walk with removal during the walk; sort; clear */
void h_walk_sort(void) {
    struct lstate s = mk();
    qlisttbl_t *t = s.t;
    struct model m = s.m;
    QV_IN(bool, filtered); QV_IN(int, nm); QV_ASSUME(nm >= 0 && nm < 3);
    QV_IN(int, victim);            /* which step of the walk removes the current entry (or -1: none) */
    QV_ASSUME(victim >= -1 && victim < TN);
    char name[2]; name[0] = NAMES[nm]; name[1] = 0;
    int order[TN + 1]; size_t no = 0;
    if (s.fwd) { for (size_t i = 0; i < TN; i++) if (!filtered || eqname(&s, m.e[i].nm, nm)) order[no++] = (int)i; }
    else { for (size_t i = TN; i > 0; i--) if (!filtered || eqname(&s, m.e[i - 1].nm, nm)) order[no++] = (int)(i - 1); }
    qlisttbl_obj_t cur; memset(&cur, 0, sizeof cur);
    int removed_at = -1;
    for (size_t i = 0; i < TN; i++) {
        if (i >= no) break;
        bool r = qlisttbl_getnext(t, &cur, filtered ? name : NULL, false);
        LOCK_BALANCED(s);
        QV_ASSERT(r, "C08: walk returns every (matching) entry before reporting the end");
        if (!r) goto out;
        QV_ASSERT(cur.name[0] == NAMES[m.e[order[i]].nm] && cur.size == m.e[order[i]].size && ((uchar *)cur.data)[0] == m.e[order[i]].data[0], "C08: walk returns all matches in lookup order");
        if ((int)i == victim) {
            QV_ASSERT(qlisttbl_removeobj(t, &cur), "C08: removing the current entry during a walk succeeds");
            LOCK_BALANCED(s);
            removed_at = order[i];
        }
    }
    errno = 0;
    QV_ASSERT(!qlisttbl_getnext(t, &cur, filtered ? name : NULL, false) && errno == ENOENT, "C08: walk reports the end after the last match");
    LOCK_BALANCED(s);
    if (removed_at >= 0) { for (size_t i = (size_t)removed_at; i + 1 < m.n; i++) m.e[i] = m.e[i + 1]; m.n--; }
    check(&s, &m);
    /* sort: ascending by the configured comparison, stable */
    qlisttbl_sort(t);
    LOCK_BALANCED(s);
    struct model sm; sm.n = 0;
    for (size_t i = 0; i < m.n; i++) {      /* insertion sort = the stable order */
        size_t p = sm.n;
        while (p > 0 && cmpname(&s, sm.e[p - 1].nm, m.e[i].nm) > 0) { sm.e[p] = sm.e[p - 1]; p--; }
        sm.e[p] = m.e[i]; sm.n++;
    }
    if (!s.unique || true) check(&s, &sm);
    QV_REACH("walk and sort done");
    qlisttbl_clear(t);
    LOCK_BALANCED(s);
    sm.n = 0; check(&s, &sm);
out:
    qlisttbl_free(t);
    QV_END();
}

/* ------------------------------------------------------------ constructor: option word -> behaviour switches */
void h_ctor(void) {
    QV_IN(int, opt); QV_ASSUME(opt >= 0 && opt < 32);
    gh_lock_depth = 0;
    qlisttbl_t *t = qlisttbl(opt);
    if (t == NULL) QV_ASSERT(errno == ENOMEM, "C15: constructor reports ENOMEM");
    else {
        QV_ASSERT(t->num == 0 && t->first == NULL && t->last == NULL, "C08: new table is empty");
        QV_ASSERT(t->unique == ((opt & QLISTTBL_UNIQUE) != 0) && t->inserttop == ((opt & QLISTTBL_INSERTTOP) != 0) && t->lookupforward == ((opt & QLISTTBL_LOOKUPFORWARD) != 0), "C08: options select the behaviour switches");
        QV_ASSERT(t->namematch == ((opt & QLISTTBL_CASEINSENSITIVE) ? namecasematch : namematch) && t->namecmp == ((opt & QLISTTBL_CASEINSENSITIVE) ? strcasecmp : strcmp), "C08: case-insensitive option selects the comparison");
        QV_ASSERT(((opt & QLISTTBL_THREADSAFE) != 0) == (t->qmutex != NULL), "C13: mutex exists exactly for THREADSAFE");
        qlisttbl_free(t);
    }
    QV_ASSERT(gh_lock_depth == 0, "C14: constructor/free leave no lock held");
    QV_END();
}
