/*
 * Contracts for qhasharr.c (C06, C07, C11, C12, C15).
 * State: EVERY well-formed image (INV_wf) of a table with HM slots (per-instance constant): the user
 * region is ONE exactly-sized heap object of 12 + HM*84 bytes whose bytes are fully symbolic and only
 * constrained by INV_wf - reachable or not.  Keys are one-byte names from an alphabet of ALPHA letters
 * (in-slot keys; keys longer than 16 bytes are outside this harness), the slot-placement hash is an
 * UNINTERPRETED deterministic function of the key, value chains have any length that fits.
 * The value written by put has the per-instance constant length VS (both sides of the 32-byte first
 * block and of the 66-byte extension block).  memcpy of value bytes goes through the ghost-byte contract.
 */
#include "qv.h"
typedef unsigned char uchar;
#ifndef HM
#define HM 3
#endif
#ifndef VS
#define VS 33
#endif
#define ALPHA 3

static uint32_t gh_hash[ALPHA];
uint32_t qhashmurmur3_32(const void *data, size_t nbytes) {
    uchar c = *(const uchar *)data;
    return (nbytes == 1 && c >= 'a' && c < 'a' + ALPHA) ? gh_hash[c - 'a'] : 99u;
}
/* key digest: only stored / compared for keys longer than 16 bytes; deterministic function of the key */
bool qhashmd5(const void *data, size_t nbytes, void *retbuf) {
    for (int i = 0; i < 16; i++) ((uchar *)retbuf)[i] = (uchar)(*(const uchar *)data + i);
    return true;
}

#include "containers/qhasharr.h"
/* value bytes are copied by contract (ghost offset inside each block); whole slots are copied exactly */
size_t gh_off, gh_off2;
const void *gh_last_alloc; size_t gh_last_size;   /* most recent result buffer and its requested size */
/* assumed contract of memcpy in this harness:
 *   whole slots (n == sizeof slot) and short regions (n <= 16: keys, digests) are copied exactly;
 *   value blocks (17..66 bytes): validity of both regions is an obligation; the byte at the arbitrary ghost
 *   offset gh_off is copied exactly and the byte at a second arbitrary offset gets an arbitrary value (any
 *   single other byte may have changed) - array-free, so the query stays small.  Everything the harness
 *   claims about value bytes is claimed for the ghost offset, hence for every offset. */
static void *qv_memcpy(void *dst, const void *src, size_t n) {
#ifndef QV_NATIVE
    if (gh_last_alloc != NULL && __CPROVER_same_object(dst, gh_last_alloc))
        __CPROVER_assert(__CPROVER_POINTER_OFFSET(dst) + n <= gh_last_size, "C11: copy stays inside the requested size of the result buffer");
#endif
    if (n == sizeof(qhasharr_slot_t)) { *(qhasharr_slot_t *)dst = *(const qhasharr_slot_t *)src; return dst; }
    if (n <= 16) { for (size_t i = 0; i < 16; i++) if (i < n) ((uchar *)dst)[i] = ((const uchar *)src)[i]; return dst; }
#ifndef QV_NATIVE
    __CPROVER_assert(__CPROVER_r_ok(src, n), "C11: memcpy source region is readable for n bytes");
    __CPROVER_assert(__CPROVER_w_ok(dst, n), "C11: memcpy destination region is writable for n bytes");
    if (gh_off2 < n && gh_off2 != gh_off) ((uchar *)dst)[gh_off2] = nondet_uchar();
    if (gh_off < n) ((uchar *)dst)[gh_off] = ((const uchar *)src)[gh_off];
#else
    for (size_t i = 0; i < n; i++) ((uchar *)dst)[i] = ((const uchar *)src)[i];
#endif
    return dst;
}
/* result buffers: a symbolic-size heap object makes the query explode, so in this harness malloc hands out a
 * fixed-capacity object and remembers the REQUESTED size; every copy into it is checked against that size
 * (obligation in qv_memcpy), which is what an exactly-sized object would have given */
#define MAXVAL (Q_HASHARR_DATASIZE + (HM - 1) * (int)sizeof(struct Q_HASHARR_SLOT_EXT))
#ifndef QV_NATIVE
static void *qv_malloc(size_t n) {
    if (n == sizeof(qhasharr_t)) return malloc(sizeof(qhasharr_t));   /* the handle object itself: ordinary allocation of constant size */
    __CPROVER_assert(n <= MAXVAL, "C11: result buffer request is bounded by the table capacity");
    if (nondet_bool()) return NULL;                         /* allocation may fail */
    void *p = QV_ALLOC(MAXVAL);
    gh_last_alloc = p; gh_last_size = n;
    return p;
}
#define malloc qv_malloc
#endif
/* contract stub for the static helper get_slots() (calls redirected by the weaver): the slot array starts right
 * after the header.  Returning it as a TYPED pointer into the region keeps cbmc's accesses field-wise; that the
 * typed pointer equals the real helper's byte arithmetic is an obligation of every call. */
struct image_fwd;
static struct qhasharr_slot_s *get_slots__ct(qhasharr_t *tbl);
#define memcpy qv_memcpy
#include "src/containers/qhasharr.c"
#undef memcpy
#undef malloc

/* the user region as ONE exactly-sized heap object (typed so that cbmc sees header and slot fields directly) */
struct image { qhasharr_data_t hdr; qhasharr_slot_t slots[HM]; };
#define SLOTS(img) (((struct image *)(img))->slots)
static struct qhasharr_slot_s *get_slots__ct(qhasharr_t *tbl) {
    qhasharr_slot_t *typed = ((struct image *)tbl->data)->slots;
    QV_ASSERT((char *)typed == (char *)get_slots(tbl), "C07: slot array starts right after the header (contract of get_slots)");
    return typed;
}
#define IMGSIZE (sizeof(struct image))
#define FIRSTCAP Q_HASHARR_DATASIZE
#define EXTCAP ((int)sizeof(struct Q_HASHARR_SLOT_EXT))
#define ISKEY(s) ((s).count >= 1 || (s).count == -1)

/* key of a key slot as alphabet index, -1 if it is not a one-byte alphabet key */
static int keyof(const qhasharr_slot_t *s) {
    if (s->data.pair.namesize != 1) return -1;
    int k = s->data.pair.name[0] - 'a';
    return (k >= 0 && k < ALPHA) ? k : -1;
}

/* INV_wf: structural well-formedness of the whole image; returns true/false (used as assumption and as obligation) */
static bool wf(const qhasharr_data_t *img) {
    const qhasharr_slot_t *s = SLOTS(img);
    if (img->maxslots != HM) return false;
    int used = 0, nkeys = 0;
    bool seen[ALPHA]; for (int k = 0; k < ALPHA; k++) seen[k] = false;
    for (int i = 0; i < HM; i++) {
        int c = s[i].count;
        if (c == 0) continue;
        used++;
        if (c < -2 || c > HM) return false;
        /* forward link: -1 or an extension block that points back to this slot */
        int l = s[i].link;
        if (l != -1) { if (l < 0 || l >= HM || l == i || s[l].count != -2 || (int)s[l].hash != i) return false; }
        if (c == -2) {
            /* extension block: back link to a non-free block whose forward link is this slot; non-last blocks are full */
            int p = (int)s[i].hash;
            if (s[i].hash >= HM || p == i || s[p].count == 0 || s[p].link != i) return false;
            if (s[i].datasize < 1 || s[i].datasize > EXTCAP || (l != -1 && s[i].datasize != EXTCAP)) return false;
            /* belongs to exactly one key: walking back reaches a key slot */
            int q = p, steps = 0;
            while (s[q].count == -2) { if (++steps > HM) return false; q = (int)s[q].hash; if (q < 0 || q >= HM || s[q].count == 0) return false; }
        } else {
            nkeys++;
            int k = keyof(&s[i]);
            if (k < 0 || seen[k]) return false;                 /* stored keys are distinct */
            seen[k] = true;
            if (s[i].hash != gh_hash[k] % HM) return false;      /* home index of the key */
            if (s[i].datasize < 1 || s[i].datasize > FIRSTCAP || (l != -1 && s[i].datasize != FIRSTCAP)) return false;
            if (c >= 1) {
                if ((int)s[i].hash != i) return false;           /* leading slot sits at home */
                int same = 0;
                for (int j = 0; j < HM; j++) if (ISKEY(s[j]) && (int)s[j].hash == i) same++;
                if (same != c) return false;                     /* collision count matches */
            } else {
                int h = (int)s[i].hash;
                if (h == i || s[h].count < 2) return false;      /* a collision key has a counting leading slot */
            }
        }
    }
    return img->usedslots == used && img->num == nkeys;
}

/* ideal view: slot index of key k or -1; number of slots of its value chain; value length */
static int find_key(const qhasharr_data_t *img, int k) {
    const qhasharr_slot_t *s = SLOTS(img);
    for (int i = 0; i < HM; i++) if (ISKEY(s[i]) && keyof(&s[i]) == k) return i;
    return -1;
}
static int chain_slots(const qhasharr_data_t *img, int i) {
    const qhasharr_slot_t *s = SLOTS(img); int n = 0;
    for (int steps = 0; steps <= HM && i != -1; steps++) { n++; i = s[i].link; }
    return n;
}
static size_t chain_bytes(const qhasharr_data_t *img, int i) {
    const qhasharr_slot_t *s = SLOTS(img); size_t n = 0;
    for (int steps = 0; steps <= HM && i != -1; steps++) { n += s[i].datasize; i = s[i].link; }
    return n;
}
/* byte at ghost offset of block b of the chain starting at i (0 if there is no such byte) */
static int chain_byte(const qhasharr_data_t *img, int i, int b, size_t off) {
    const qhasharr_slot_t *s = SLOTS(img);
    for (int steps = 0; steps < b && i != -1; steps++) i = s[i].link;
    if (i == -1 || off >= s[i].datasize) return -1;
    /* value bytes start at offset 0 of the slot's data union for both block kinds; read them the way memcpy does */
    return ((const uchar *)&s[i].data)[off];
}

struct view { bool has[ALPHA]; int slots[ALPHA]; size_t bytes[ALPHA]; int b0[ALPHA], b1[ALPHA]; };
static struct view take_view(const qhasharr_data_t *img) {
    struct view v;
    for (int k = 0; k < ALPHA; k++) {
        int i = find_key(img, k);
        v.has[k] = i >= 0; v.slots[k] = i >= 0 ? chain_slots(img, i) : 0; v.bytes[k] = i >= 0 ? chain_bytes(img, i) : 0;
        v.b0[k] = i >= 0 ? chain_byte(img, i, 0, gh_off) : -1;
        v.b1[k] = i >= 0 ? chain_byte(img, i, 1, gh_off) : -1;
    }
    return v;
}
static void same_key(const struct view *a, const struct view *b, int k) {
    QV_ASSERT(a->has[k] == b->has[k] && a->slots[k] == b->slots[k] && a->bytes[k] == b->bytes[k], "C06: an operation on one key never alters the presence or value length of another key");
    QV_ASSERT(a->b0[k] == b->b0[k] && a->b1[k] == b->b1[k], "C06: an operation on one key never alters the value bytes of another key");
}

struct astate { qhasharr_t *t; qhasharr_data_t *img; struct view v; int used, num; };
static struct astate mk(void) {
    struct astate s;
    for (int k = 0; k < ALPHA; k++) { QV_IN(uint32_t, hv); QV_ASSUME(hv < HM); gh_hash[k] = hv; }   /* placement hash: any home index */
    QV_IN(size_t, off); QV_ASSUME(off < EXTCAP); gh_off = off;
    QV_IN(size_t, off2); QV_ASSUME(off2 < EXTCAP); gh_off2 = off2;
    _Static_assert(sizeof(struct image) == sizeof(qhasharr_data_t) + HM * sizeof(qhasharr_slot_t), "region layout: header directly followed by the slots");
#ifdef QV_NATIVE
    qhasharr_data_t *img = malloc(IMGSIZE);
    QV_IN_BYTES(img, IMGSIZE);
#else
    struct image *region = QV_ALLOC(sizeof(struct image));   /* exactly-sized user region ... */
    struct image anyimage;                                    /* ... with arbitrary content */
    *region = anyimage;
    qhasharr_data_t *img = &region->hdr;
#endif
#ifdef IMG_INIT
    /* per-instance constant STRUCTURE (the registry enumerates every well-formed structure for HM slots:
     * which slot is a leading key / collision key / extension block / free, home indexes, links, block
     * sizes at both ends of their range); value bytes, the bytes of free slots and stale fields stay arbitrary */
    {
        static const int spec[HM][5] = IMG_INIT;             /* count, hash, link, datasize, key */
        int used = 0, nk = 0;
        for (int i = 0; i < HM; i++) {
            qhasharr_slot_t *sl = &SLOTS(img)[i];
            sl->count = (short)spec[i][0];
            if (spec[i][0] == 0) continue;
            used++;
            sl->hash = (uint32_t)spec[i][1]; sl->link = spec[i][2]; sl->datasize = (uint8_t)spec[i][3];
            if (spec[i][0] != -2) { nk++; sl->data.pair.name[0] = 'a' + spec[i][4]; sl->data.pair.namesize = 1; gh_hash[spec[i][4]] = (uint32_t)spec[i][1]; }
        }
        img->maxslots = HM; img->usedslots = used; img->num = nk;
    }
#endif
    QV_ASSUME(wf(img));
    /* handle attached to the existing image (what qhasharr(img, 0) builds; group hasharr_init_attach checks that) */
    qhasharr_t *t = QV_ALLOC(sizeof *t);
    t->data = img;
    t->getnext = qhasharr_getnext;
    s.t = t; s.img = img; s.v = take_view(img); s.used = img->usedslots; s.num = img->num;
    return s;
}
static void INV(struct astate *s) {
    QV_ASSERT(wf(s->img), "C07: image is well-formed after the operation: every occupied slot belongs to one key, chains intact and terminated, collision counts and header counters match");
    QV_ASSERT(s->t->data == s->img, "C07: the handle keeps pointing at the user region");
}
static int need_slots(size_t n) { return n <= FIRSTCAP ? 1 : 1 + (int)((n - FIRSTCAP + EXTCAP - 1) / EXTCAP); }

/* ------------------------------------------------------------ put_by_obj with a value of VS bytes */
void h_put(void) {
    struct astate s = mk();
    QV_IN(int, k); QV_ASSUME(k >= 0 && k < ALPHA);
    uchar name = 'a' + k;
    uchar *val = malloc(VS); QV_ASSUME(val != NULL);
    QV_IN_BYTES(val, VS);
    int need = need_slots(VS);
    int free_before = HM - s.used, released = s.v.slots[k];
    bool expect = s.used < HM && need <= free_before + released;
    int v0 = (gh_off < (VS < FIRSTCAP ? VS : FIRSTCAP)) ? val[gh_off] : -1;
    int v1 = (VS > FIRSTCAP && gh_off < (size_t)((VS - FIRSTCAP) < EXTCAP ? (VS - FIRSTCAP) : EXTCAP)) ? val[FIRSTCAP + gh_off] : -1;
    errno = 0;
    bool r = qhasharr_put_by_obj(s.t, &name, 1, val, VS);
    INV(&s);
    struct view w = take_view(s.img);
    for (int j = 0; j < ALPHA; j++) if (j != k) same_key(&s.v, &w, j);
    QV_ASSERT(r == expect, "C06: put succeeds exactly when a slot is free and the value fits into the free slots plus those released by the value it replaces");
    if (r) {
        QV_ASSERT(w.has[k] && w.bytes[k] == VS && w.slots[k] == need, "C06: the value is stored with its exact length in ceil-many slots");
        QV_ASSERT(w.b0[k] == v0 && w.b1[k] == v1, "C06,C12: stored bytes are the bytes put (first block and first extension block)");
        QV_ASSERT(s.img->usedslots == s.used - released + need && s.img->num == s.num + (s.v.has[k] ? 0 : 1), "C06: used-slot and key counters are exact");
        QV_REACH("put stored");
    } else {
        QV_ASSERT(errno == ENOBUFS, "C06: a put that does not fit fails with the out-of-space error");
        QV_ASSERT(!w.has[k] || (w.slots[k] == s.v.slots[k] && w.bytes[k] == s.v.bytes[k] && w.b0[k] == s.v.b0[k] && w.b1[k] == s.v.b1[k]),
                  "C06: a failed put leaves its own key unchanged or absent, never partially written");
        QV_ASSERT(s.img->usedslots == s.used - (w.has[k] ? 0 : released) && s.img->num == s.num - ((s.v.has[k] && !w.has[k]) ? 1 : 0), "C06: counters stay exact after a failed put");
        QV_REACH("put refused");
    }
    free(val);
    QV_ASSERT(!qhasharr_put_by_obj(s.t, NULL, 1, &name, 1) && !qhasharr_put_by_obj(s.t, &name, 0, &name, 1) && !qhasharr_put_by_obj(s.t, &name, 1, NULL, 1) && !qhasharr_put_by_obj(s.t, &name, 1, &name, 0),
              "C06: invalid arguments are refused");
    qhasharr_free(s.t); free(s.img);
    QV_END();
}

/* ------------------------------------------------------------ get_by_obj, remove_by_obj, size */
void h_get_remove(void) {
    struct astate s = mk();
    QV_IN(int, k); QV_ASSUME(k >= 0 && k < ALPHA);
    uchar name = 'a' + k;
    int mx = -5, us = -5;
    QV_ASSERT(qhasharr_size(s.t, &mx, &us) == s.num && mx == HM && us == s.used, "C06: size reports key count, capacity and used slots");
    size_t sz = 4242;
    errno = 0;
    uchar *d = qhasharr_get_by_obj(s.t, &name, 1, &sz);
    INV(&s);
    struct view w = take_view(s.img);
    for (int j = 0; j < ALPHA; j++) same_key(&s.v, &w, j);
    if (!s.v.has[k]) { QV_ASSERT(d == NULL && errno == ENOENT, "C06: get of an absent key reports not-found"); QV_REACH("get absent"); }
    else if (d == NULL) QV_ASSERT(errno == ENOMEM, "C15: get of a present key fails only on allocation failure");
    else {
        QV_ASSERT(sz == s.v.bytes[k], "C06: get returns the exact value length");
#ifndef QV_NATIVE
        QV_ASSERT(gh_last_alloc == d && gh_last_size == sz && !QV_SAME_OBJECT(d, s.img), "C12: get returns an independent allocation of exactly the value length, outside the user region");
#endif
        if (s.v.b0[k] >= 0) QV_ASSERT(d[gh_off] == s.v.b0[k], "C06,C12: get returns the stored bytes (first block)");
        if (s.v.b1[k] >= 0) QV_ASSERT(d[FIRSTCAP + gh_off] == s.v.b1[k], "C06,C12: get returns the stored bytes (extension block)");
        free(d);
        QV_REACH("get present");
    }
    errno = 0;
    bool r = qhasharr_remove_by_obj(s.t, (char *)&name, 1);
    INV(&s);
    w = take_view(s.img);
    QV_ASSERT(r == s.v.has[k] && (r || errno == ENOENT), "C06: remove succeeds exactly for present keys");
    QV_ASSERT(!w.has[k], "C06: the removed key is gone");
    for (int j = 0; j < ALPHA; j++) if (j != k) same_key(&s.v, &w, j);
    QV_ASSERT(s.img->usedslots == s.used - s.v.slots[k] && s.img->num == s.num - (s.v.has[k] ? 1 : 0), "C06: removal releases exactly the slots of that value");
    qhasharr_free(s.t); free(s.img);
    QV_END();
}

/* ------------------------------------------------------------ remove_by_idx, getnext walk, clear */
void h_idx_walk_clear(void) {
    struct astate s = mk();
    QV_IN(int, idx); QV_ASSUME(idx >= -1 && idx < HM);
    const qhasharr_slot_t *sl = SLOTS(s.img);
    int k = (idx >= 0 && ISKEY(sl[idx])) ? keyof(&sl[idx]) : -1;
    /* walk first: every stored key exactly once */
    bool visited[ALPHA]; for (int j = 0; j < ALPHA; j++) visited[j] = false;
    int cur = 0, cnt = 0;
    for (int step = 0; step < HM + 1; step++) {
        qhasharr_obj_t o;
        errno = 0;
        if (!qhasharr_getnext(s.t, &o, &cur)) { QV_ASSERT(errno == ENOENT || errno == ENOMEM, "C06: walk ends with not-found (or allocation failure)"); if (errno == ENOMEM) goto out; break; }
        int kk = ((uchar *)o.name)[0] - 'a';
        QV_ASSERT(o.namesize == 1 && kk >= 0 && kk < ALPHA && s.v.has[kk] && !visited[kk], "C06: walk returns each stored key exactly once");
        if (kk < 0 || kk >= ALPHA) { free(o.name); free(o.data); goto out; }
        visited[kk] = true; cnt++;
        QV_ASSERT(o.datasize == s.v.bytes[kk], "C06: walk returns the value length");
        if (s.v.b0[kk] >= 0) QV_ASSERT(((uchar *)o.data)[gh_off] == s.v.b0[kk], "C06: walk returns the value bytes");
        free(o.name); free(o.data);
    }
    QV_ASSERT(cnt == s.num, "C06: walk visits all stored keys");
    INV(&s);
    errno = 0;
    bool r = qhasharr_remove_by_idx(s.t, idx);
    INV(&s);
    struct view w = take_view(s.img);
    QV_ASSERT(r == (k >= 0), "C06: remove-by-index succeeds exactly for slots that hold a key");
    for (int j = 0; j < ALPHA; j++) if (j != k) same_key(&s.v, &w, j);
    if (k >= 0) { QV_ASSERT(!w.has[k] && s.img->usedslots == s.used - s.v.slots[k] && s.img->num == s.num - 1, "C06: remove-by-index removes exactly that key and releases its slots"); QV_REACH("remove by idx"); }
    else QV_ASSERT(s.img->usedslots == s.used && s.img->num == s.num, "C06: refused remove-by-index changes nothing");
    qhasharr_clear(s.t);
    INV(&s);
    QV_ASSERT(s.img->usedslots == 0 && s.img->num == 0 && s.img->maxslots == HM, "C06: clear empties the table and keeps the capacity");
out:
    qhasharr_free(s.t); free(s.img);
    QV_END();
}

/* ------------------------------------------------------------ C07: initialise / attach; relocation */
void h_init_attach(void) {
    void *mem = malloc(IMGSIZE); QV_ASSUME(mem != NULL);
    qhasharr_t *t = qhasharr(mem, IMGSIZE);
    if (t != NULL) {
        qhasharr_data_t *img = mem;
        for (int k = 0; k < ALPHA; k++) gh_hash[k] = k;
        QV_ASSERT(img->maxslots == HM && img->usedslots == 0 && img->num == 0 && wf(img), "C07: a freshly initialised region is an empty well-formed table using the whole region");
        QV_ASSERT(qhasharr_calculate_memsize(HM) == IMGSIZE, "C07: memsize calculation matches header plus slots");
        /* a second handle attached with memsize 0 observes the same table and writes nothing */
        uchar snap = ((uchar *)mem)[20];
        qhasharr_t *t2 = qhasharr(mem, 0);
        if (t2 != NULL) { QV_ASSERT(t2->data == img && ((uchar *)mem)[20] == snap && img->maxslots == HM, "C07: attaching a second handle does not write to the region"); qhasharr_free(t2); }
        qhasharr_free(t);
    }
    free(mem);
    QV_END();
}

/* relocation: the same put through a handle on a byte-for-byte copy at another address gives the same
 * result and the same image (the image holds no process addresses) */
void h_relocate(void) {
    struct astate s = mk();
    struct image *region2 = QV_ALLOC(sizeof(struct image));
    *region2 = *(struct image *)s.img;                       /* byte-for-byte copy at another address */
    qhasharr_data_t *copy = &region2->hdr;
    qhasharr_t *t2 = QV_ALLOC(sizeof *t2); t2->data = copy;
    QV_IN(int, k); QV_ASSUME(k >= 0 && k < ALPHA);
    uchar name = 'a' + k;
    uchar val[VS];
    QV_IN_BYTES(val, VS);                                   /* (an uninitialised local array is arbitrary for cbmc) */
    bool r1 = qhasharr_put_by_obj(s.t, &name, 1, val, VS);
    int e1 = errno;
    bool r2 = qhasharr_put_by_obj(t2, &name, 1, val, VS);
    QV_ASSERT(r1 == r2 && (r1 || e1 == errno), "C07: a second handle on a copy of the image at another address returns the same result");
    struct view a = take_view(s.img), b = take_view(copy);
    for (int j = 0; j < ALPHA; j++) same_key(&a, &b, j);
    QV_ASSERT(s.img->usedslots == copy->usedslots && s.img->num == copy->num && wf(copy), "C07: both images have the same counters and stay well-formed");
    QV_IN(size_t, pos); QV_ASSUME(pos < sizeof(qhasharr_data_t));
    QV_ASSERT(((uchar *)s.img)[pos] == ((uchar *)copy)[pos], "C07: headers stay byte-identical");
    qhasharr_free(s.t); qhasharr_free(t2); free(s.img); free(copy);
    QV_END();
}

/* ------------------------------------------------------------ remove_by_idx alone (promotion of a collision key into the
 * leading slot, back-link repair): structural invariant, view and accounting */
void h_remove_idx(void) {
    struct astate s = mk();
    QV_IN(int, idx); QV_ASSUME(idx >= 0 && idx < HM);
    const qhasharr_slot_t *sl = SLOTS(s.img);
    int k = ISKEY(sl[idx]) ? keyof(&sl[idx]) : -1;
    errno = 0;
    bool r = qhasharr_remove_by_idx(s.t, idx);
    INV(&s);
    struct view w = take_view(s.img);
    QV_ASSERT(r == (k >= 0), "C06: remove-by-index succeeds exactly for slots that hold a key");
    for (int j = 0; j < ALPHA; j++) if (j != k) same_key(&s.v, &w, j);
    if (k >= 0) { QV_ASSERT(!w.has[k] && s.img->usedslots == s.used - s.v.slots[k] && s.img->num == s.num - 1, "C06: remove-by-index removes exactly that key and releases its slots"); QV_REACH("remove by idx"); }
    else QV_ASSERT(s.img->usedslots == s.used && s.img->num == s.num, "C06: refused remove-by-index changes nothing");
    QV_ASSERT(!qhasharr_remove_by_idx(s.t, -1), "C06: negative index is refused");
    qhasharr_free(s.t); free(s.img);
    QV_END();
}
