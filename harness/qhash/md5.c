/*
 * MD5 (C18): (1) MD5Transform == RFC 1321 compression, written independently as the table-driven
 * round function, for ALL 2^128 states and 2^512 blocks (loop-free real code; z3);
 * (2) MD5Init constants; (3) with the compression function replaced by a recording stub
 * (MD5Transform__ct, self-calls redirected by the weaver): qhashmd5 = Init, Update, Final feeds
 * exactly the RFC 1321 padded message (message, 0x80, zeros to 56 mod 64, 64-bit little-endian bit
 * length) to the compression function, block by block in order, and returns the little-endian
 * encoding of the final state - for a per-instance constant message length MDN with arbitrary content.
 */
#include "qv.h"
typedef unsigned char uchar;
#ifndef MDN
#define MDN 3
#endif
#define MAXBLK ((MDN + 8) / 64 + 1)

/* ---- recording stub for the compression function (used by group md5_padding only) */
static uchar gh_blocks[MAXBLK + 1][64];
static unsigned gh_nblk;
static void MD5Transform__ct(uint32_t state[4], const unsigned char block[64]) {
    if (gh_nblk <= MAXBLK) for (int i = 0; i < 64; i++) gh_blocks[gh_nblk][i] = block[i];
    gh_nblk++;
    /* an arbitrary but deterministic, order-sensitive update so that the digest depends on the block sequence */
    state[0] = state[0] * 31u + block[0] + 1u;
    state[1] ^= state[0] + block[63];
    state[2] += state[1] ^ block[1];
    state[3] = (state[3] << 1) ^ state[2] ^ block[62];
}

#include "src/internal/md5/md5c.c"
#include "src/utilities/qhash.c"

/* ---- RFC 1321, section 3.4, table-driven */
static const uint32_t SPEC_K[64] = {
    0xd76aa478, 0xe8c7b756, 0x242070db, 0xc1bdceee, 0xf57c0faf, 0x4787c62a, 0xa8304613, 0xfd469501,
    0x698098d8, 0x8b44f7af, 0xffff5bb1, 0x895cd7be, 0x6b901122, 0xfd987193, 0xa679438e, 0x49b40821,
    0xf61e2562, 0xc040b340, 0x265e5a51, 0xe9b6c7aa, 0xd62f105d, 0x02441453, 0xd8a1e681, 0xe7d3fbc8,
    0x21e1cde6, 0xc33707d6, 0xf4d50d87, 0x455a14ed, 0xa9e3e905, 0xfcefa3f8, 0x676f02d9, 0x8d2a4c8a,
    0xfffa3942, 0x8771f681, 0x6d9d6122, 0xfde5380c, 0xa4beea44, 0x4bdecfa9, 0xf6bb4b60, 0xbebfbc70,
    0x289b7ec6, 0xeaa127fa, 0xd4ef3085, 0x04881d05, 0xd9d4d039, 0xe6db99e5, 0x1fa27cf8, 0xc4ac5665,
    0xf4292244, 0x432aff97, 0xab9423a7, 0xfc93a039, 0x655b59c3, 0x8f0ccc92, 0xffeff47d, 0x85845dd1,
    0x6fa87e4f, 0xfe2ce6e0, 0xa3014314, 0x4e0811a1, 0xf7537e82, 0xbd3af235, 0x2ad7d2bb, 0xeb86d391 };
static const int SPEC_S[64] = { 7, 12, 17, 22, 7, 12, 17, 22, 7, 12, 17, 22, 7, 12, 17, 22,
    5, 9, 14, 20, 5, 9, 14, 20, 5, 9, 14, 20, 5, 9, 14, 20,
    4, 11, 16, 23, 4, 11, 16, 23, 4, 11, 16, 23, 4, 11, 16, 23,
    6, 10, 15, 21, 6, 10, 15, 21, 6, 10, 15, 21, 6, 10, 15, 21 };

static void spec_md5_compress(uint32_t st[4], const uchar blk[64]) {
    uint32_t M[16];
    for (int i = 0; i < 16; i++) M[i] = (uint32_t)blk[4 * i] | ((uint32_t)blk[4 * i + 1] << 8) | ((uint32_t)blk[4 * i + 2] << 16) | ((uint32_t)blk[4 * i + 3] << 24);
    uint32_t A = st[0], B = st[1], C = st[2], D = st[3];
    for (int i = 0; i < 64; i++) {
        uint32_t F; int g;
        if (i < 16) { F = (B & C) | (~B & D); g = i; }
        else if (i < 32) { F = (D & B) | (~D & C); g = (5 * i + 1) % 16; }
        else if (i < 48) { F = B ^ C ^ D; g = (3 * i + 5) % 16; }
        else { F = C ^ (B | ~D); g = (7 * i) % 16; }
        F = F + A + SPEC_K[i] + M[g];
        A = D; D = C; C = B;
        B = B + ((F << SPEC_S[i]) | (F >> (32 - SPEC_S[i])));
    }
    st[0] += A; st[1] += B; st[2] += C; st[3] += D;
}

void h_md5_transform(void) {
    uint32_t st[4], ref[4];
    uchar blk[64];
#ifdef QV_NATIVE
    for (int i = 0; i < 4; i++) { QV_IN(uint32_t, stw); st[i] = stw; }
    QV_IN_BYTES(blk, 64);
#else
    for (int i = 0; i < 4; i++) st[i] = nondet_uint32_t();
    for (int i = 0; i < 64; i++) blk[i] = nondet_uchar();
#endif
    for (int i = 0; i < 4; i++) ref[i] = st[i];
    MD5Transform(st, blk);
    spec_md5_compress(ref, blk);
    QV_ASSERT(st[0] == ref[0] && st[1] == ref[1] && st[2] == ref[2] && st[3] == ref[3],
              "C18: MD5Transform equals the RFC 1321 compression function for every state and block");
    MD5_CTX c;
    MD5Init(&c);
    QV_ASSERT(c.state[0] == 0x67452301u && c.state[1] == 0xefcdab89u && c.state[2] == 0x98badcfeu && c.state[3] == 0x10325476u && c.count[0] == 0 && c.count[1] == 0,
              "C18: MD5Init loads the RFC 1321 initial state");
    QV_END();
}

/* group md5_padding: the real Update/Pad/Final with MD5Transform__ct woven in for MD5Transform */
void h_md5_padding(void) {
    uchar *msg = malloc(MDN);
    QV_ASSUME(msg != NULL);
    QV_IN_BYTES(msg, MDN);
    /* reference padded message */
    uchar pad[MAXBLK * 64];
    size_t total = ((MDN + 8) / 64 + 1) * 64;
    for (size_t i = 0; i < total; i++) pad[i] = i < MDN ? msg[i] : (i == MDN ? 0x80 : 0);
    uint64_t bits = (uint64_t)MDN * 8;
    for (int i = 0; i < 8; i++) pad[total - 8 + i] = (uchar)(bits >> (8 * i));
    /* reference digest under the same stub compression */
    uint32_t st[4] = { 0x67452301u, 0xefcdab89u, 0x98badcfeu, 0x10325476u };
    gh_nblk = 0;
    for (size_t b = 0; b < total / 64; b++) MD5Transform__ct(st, pad + 64 * b);
    gh_nblk = 0;
    uchar digest[16];
    bool ok = qhashmd5(msg, MDN, digest);
    QV_ASSERT(ok, "C18: qhashmd5 succeeds on valid arguments");
    QV_ASSERT(gh_nblk == total / 64, "C18: MD5 compresses exactly ceil((n+9)/64) blocks");
    for (size_t b = 0; b < total / 64; b++)
        for (int i = 0; i < 64; i++)
            QV_ASSERT(gh_blocks[b][i] == pad[64 * b + i], "C18: block sequence fed to the compression function is the RFC 1321 padded message");
    for (int i = 0; i < 16; i++)
        QV_ASSERT(digest[i] == (uchar)(st[i / 4] >> (8 * (i % 4))), "C18: digest is the little-endian encoding of the final state");
    QV_ASSERT(!qhashmd5(NULL, MDN, digest) && !qhashmd5(msg, MDN, NULL), "C18: NULL arguments are refused");
    free(msg);
    QV_END();
}
