/*
 * Contracts for qhash.c (C18, C11): FNV-1 32/64, MurmurHash3 x86_32 / x64_128, MD5.
 * Inputs are exactly-sized heap objects with arbitrary bytes (NULs and bytes >= 0x80 included), so
 * any read outside the given bytes is an out-of-bounds obligation.
 *   unbounded: woven loop contracts; a ghost accumulator (gh_*) is advanced by the REFERENCE step on
 *   exactly the byte/block the real loop consumes, invariant "real state == reference state";
 *   bounded: complete comparison with an independent reference for a per-instance constant length.
 */
#include "qv.h"
typedef unsigned char uchar;
size_t gh_n0;               /* length passed by the harness */
uint32_t gh_h32;            /* reference accumulators */
uint64_t gh_h64, gh_h64b;
int gh_ok;                  /* every block the loop loaded equals the little-endian block of the input at that position */

/* ------------------------------------------------------------ references (published algorithms) */
static uint32_t spec_le32(const uint8_t *p) { return (uint32_t)p[0] | ((uint32_t)p[1] << 8) | ((uint32_t)p[2] << 16) | ((uint32_t)p[3] << 24); }
static uint64_t spec_le64(const uint8_t *p) { return (uint64_t)spec_le32(p) | ((uint64_t)spec_le32(p + 4) << 32); }
static uint32_t rotl32(uint32_t x, int r) { return (x << r) | (x >> (32 - r)); }
static uint64_t rotl64(uint64_t x, int r) { return (x << r) | (x >> (64 - r)); }

static uint32_t spec_mm32_block(uint32_t h, uint32_t k) {
    k *= 0xcc9e2d51u; k = rotl32(k, 15); k *= 0x1b873593u;
    h ^= k; h = rotl32(h, 13); h = h * 5 + 0xe6546b64u;
    return h;
}
static uint32_t spec_mm32_finish(uint32_t h, const uint8_t *tail, size_t len) {
    uint32_t k = 0;
    size_t t = len & 3;
    if (t >= 3) k ^= (uint32_t)tail[2] << 16;
    if (t >= 2) k ^= (uint32_t)tail[1] << 8;
    if (t >= 1) { k ^= tail[0]; k *= 0xcc9e2d51u; k = rotl32(k, 15); k *= 0x1b873593u; h ^= k; }
    h ^= (uint32_t)len;
    h ^= h >> 16; h *= 0x85ebca6bu; h ^= h >> 13; h *= 0xc2b2ae35u; h ^= h >> 16;
    return h;
}
#define MM_C1 0x87c37b91114253d5ULL
#define MM_C2 0x4cf5ad432745937fULL
static void spec_mm128_block(uint64_t *h1, uint64_t *h2, uint64_t k1, uint64_t k2) {
    k1 *= MM_C1; k1 = rotl64(k1, 31); k1 *= MM_C2; *h1 ^= k1;
    *h1 = rotl64(*h1, 27); *h1 += *h2; *h1 = *h1 * 5 + 0x52dce729;
    k2 *= MM_C2; k2 = rotl64(k2, 33); k2 *= MM_C1; *h2 ^= k2;
    *h2 = rotl64(*h2, 31); *h2 += *h1; *h2 = *h2 * 5 + 0x38495ab5;
}
static uint64_t fmix64(uint64_t k) { k ^= k >> 33; k *= 0xff51afd7ed558ccdULL; k ^= k >> 33; k *= 0xc4ceb9fe1a85ec53ULL; k ^= k >> 33; return k; }
static void spec_mm128_finish(uint64_t h1, uint64_t h2, const uint8_t *tail, size_t len, uint64_t out[2]) {
    uint64_t k1 = 0, k2 = 0;
    size_t t = len & 15;
    for (size_t i = 15; i >= 9; i--) if (t >= i) k2 ^= (uint64_t)tail[i - 1] << (8 * (i - 9));
    if (t >= 9) { k2 *= MM_C2; k2 = rotl64(k2, 33); k2 *= MM_C1; h2 ^= k2; }
    for (size_t i = 8; i >= 1; i--) if (t >= i) k1 ^= (uint64_t)tail[i - 1] << (8 * (i - 1));
    if (t >= 1) { k1 *= MM_C1; k1 = rotl64(k1, 31); k1 *= MM_C2; h1 ^= k1; }
    h1 ^= len; h2 ^= len;
    h1 += h2; h2 += h1;
    h1 = fmix64(h1); h2 = fmix64(h2);
    h1 += h2; h2 += h1;
    out[0] = h1; out[1] = h2;
}

#include "src/internal/md5/md5c.c"
#include "src/utilities/qhash.c"

static uchar *mkinput(size_t n) {
    uchar *d = malloc(n);
    QV_ASSUME(d != NULL);
    QV_IN_BYTES(d, n);
    return d;
}

/* ------------------------------------------------------------ FNV-1, any length */
void h_fnv32(void) {
    QV_IN(size_t, n);
    QV_ASSUME(n >= 1 && n <= QV_CAP(1000000));
    uchar *d = mkinput(n);
    gh_n0 = n; gh_h32 = 0x811C9DC5u;
    uint32_t r = qhashfnv1_32(d, n);
    QV_ASSERT(r == gh_h32, "C18: FNV-1 32 equals the reference recurrence h = (h * 16777619) ^ byte over exactly the n given bytes");
    QV_ASSERT(qhashfnv1_32(NULL, n) == 0 && qhashfnv1_32(d, 0) == 0, "C18: NULL / empty input yields 0");
    free(d);
    QV_END();
}
void h_fnv64(void) {
    QV_IN(size_t, n);
    QV_ASSUME(n >= 1 && n <= QV_CAP(1000000));
    uchar *d = mkinput(n);
    gh_n0 = n; gh_h64 = 0xCBF29CE484222325ULL;
    uint64_t r = qhashfnv1_64(d, n);
    QV_ASSERT(r == gh_h64, "C18: FNV-1 64 equals the reference recurrence h = (h * 1099511628211) ^ byte over exactly the n given bytes");
    free(d);
    QV_END();
}

/* ------------------------------------------------------------ MurmurHash3, any length: the block loop reads
 * exactly the little-endian blocks 0..nblocks-1 of the input in order, nothing outside the n given bytes is
 * read (body, tail and finaliser), and the call terminates.  Value equality with the published algorithm is the
 * bounded group below (real-vs-reference multiplications do not converge for a symbolic length). */
void h_mm32(void) {
    QV_IN(size_t, n);
    QV_ASSUME(n >= 1 && n <= QV_CAP(1000000));
    uchar *d = mkinput(n);
    gh_n0 = n; gh_ok = 1;
    (void)qhashmurmur3_32(d, n);
    QV_ASSERT(gh_ok == 1, "C18: Murmur3 x86_32 body consumes exactly the little-endian 4-byte blocks 0..n/4-1 in order");
    QV_ASSERT(qhashmurmur3_32(NULL, n) == 0 && qhashmurmur3_32(d, 0) == 0, "C18: NULL / empty input yields 0");
    free(d);
    QV_END();
}
void h_mm128(void) {
    QV_IN(size_t, n);
    QV_ASSUME(n >= 1 && n <= QV_CAP(1000000));
    uchar *d = mkinput(n);
    gh_n0 = n; gh_ok = 1;
    uint64_t out[2];
    bool ok = qhashmurmur3_128(d, n, out);
    QV_ASSERT(ok && gh_ok == 1, "C18: Murmur3 x64_128 body consumes exactly the little-endian 16-byte blocks in order");
    free(d);
    QV_END();
}

/* ------------------------------------------------------------ bounded complete comparison, length HN */
#ifndef HN
#define HN 5
#endif
void h_hash_bounded(void) {
    const size_t n = HN;
    uchar *d = malloc(HN);
    QV_ASSUME(d != NULL);
    QV_IN_BYTES(d, n);
#ifndef WHICH
#define WHICH 2
#endif
    const int which = WHICH;    /* 2: Murmur3 x86_32, 3: Murmur3 x64_128 (FNV is proved for every length above) */
    if (which == 0) {
        uint32_t h = 0x811C9DC5u;
        for (size_t i = 0; i < n; i++) { h *= 0x01000193u; h ^= d[i]; }
        QV_ASSERT(qhashfnv1_32(d, n) == h, "C18: FNV-1 32 equals the published algorithm (complete, fixed length)");
    } else if (which == 1) {
        uint64_t h = 0xCBF29CE484222325ULL;
        for (size_t i = 0; i < n; i++) { h *= 0x100000001B3ULL; h ^= d[i]; }
        QV_ASSERT(qhashfnv1_64(d, n) == h, "C18: FNV-1 64 equals the published algorithm (complete, fixed length)");
    } else if (which == 2) {
        uint32_t h = 0;
        for (size_t i = 0; i < n / 4; i++) h = spec_mm32_block(h, spec_le32(d + 4 * i));
        QV_ASSERT(qhashmurmur3_32(d, n) == spec_mm32_finish(h, d + 4 * (n / 4), n), "C18: Murmur3 x86_32 equals the published algorithm (complete, fixed length)");
    } else {
        uint64_t h1 = 0, h2 = 0, out[2], ref[2];
        for (size_t i = 0; i < n / 16; i++) spec_mm128_block(&h1, &h2, spec_le64(d + 16 * i), spec_le64(d + 16 * i + 8));
        spec_mm128_finish(h1, h2, d + 16 * (n / 16), n, ref);
        QV_ASSERT(qhashmurmur3_128(d, n, out) && out[0] == ref[0] && out[1] == ref[1], "C18: Murmur3 x64_128 equals the published algorithm (complete, fixed length)");
    }
    free(d);
    QV_END();
}
