/*
 * Contracts for qvector.c (C10, C11, C12, C14, C15) - carrier B.
 *
 * State: ANY vector satisfying INV_v (not only reachable ones): built by the real constructor (so
 * the method table is the real one), then capacity, length and contents are replaced by arbitrary
 * values with num <= max <= QV_CAP and a fresh exactly-sized buffer.
 * Ghost element gh_e / ghost byte gh_b: one arbitrary stored byte stands for all of them.
 * OBJSIZE is a per-instance constant.
 */
#include "qv.h"
#ifndef OBJSIZE
#define OBJSIZE 4
#endif
#ifndef VCAP
#define VCAP 1000000
#endif
typedef unsigned char uchar;
/* which public entry point a harness exercises: a per-instance constant (VARIANT) keeps each
 * query small; without it the variant is one more symbolic input */
#ifdef VARIANT
#define VARIANT_IN(maxv) const int variant = VARIANT
#else
#define VARIANT_IN(maxv) QV_IN(int, variant); QV_ASSUME(variant >= 0 && variant <= (maxv))
#endif
#ifdef QV_C13
#define QV_LOCK_HOOKS        /* C13 overlay: see c13_* below */
#endif
#include "qv_pthread.h"
#include "qv_mem.h"

/* ghost state referenced by the woven loop invariants */
size_t gh_e, gh_b;          /* ghost element index and byte index inside the element */
uchar gh_old;               /* value of that byte at entry */
size_t gh_num;              /* element count at entry */

#include "src/containers/qvector.c"

#ifdef QV_C13
/* C13 overlay - sequential reduction of the lock discipline: while the container lock is NOT held, another
 * thread may be in the middle of an update, so the shared fields (num, max, data) hold arbitrary values
 * ("poison"); the real state becomes visible exactly when the lock is first acquired and is hidden again when
 * it is finally released.  Every contract of this file must still hold; an operation that reads or writes
 * shared state outside its critical section sees poison and fails its contract (or a safety obligation). */
static qvector_t *c13_v; static size_t c13_num, c13_max; static void *c13_data;
static void c13_poison(void) { c13_v->num = nondet_size_t(); c13_v->max = nondet_size_t(); c13_v->data = NULL; }
static void c13_reveal(void) { c13_v->num = c13_num; c13_v->max = c13_max; c13_v->data = c13_data; }
static void c13_hide(void) { c13_num = c13_v->num; c13_max = c13_v->max; c13_data = c13_v->data; c13_poison(); }
void qv_on_acquire(void) { c13_reveal(); }
void qv_on_release(void) { c13_hide(); }
#define C13_BEGIN(v) do { c13_v = (v); c13_hide(); } while (0)
#define C13_SETTLE() c13_reveal()      /* the harness looks at the state the last critical section left behind */
#else
#define C13_BEGIN(v) do { } while (0)
#define C13_SETTLE() do { } while (0)
#endif

struct vstate {
    qvector_t *v;
    qvector_t snap;          /* struct at entry (frame) */
    size_t num, max;
    uchar *data;
    int depth0;
    bool ts;
};

static void INV_v(qvector_t *v, const qvector_t *snap, const char *unused) {
    QV_ASSERT(v->objsize == OBJSIZE, "C10: INV element size is unchanged and non-zero");
    QV_ASSERT(v->num <= v->max, "C10: INV num <= max");
    QV_ASSERT((v->max == 0) == (v->data == NULL) || v->data != NULL, "C10: INV buffer present when capacity > 0");
#ifndef QV_NATIVE
    QV_ASSERT(v->max == 0 || (QV_R_OK(v->data, v->max * OBJSIZE) && QV_POINTER_OFFSET(v->data) == 0 &&
              QV_OBJECT_SIZE(v->data) >= v->max * OBJSIZE), "C10: INV buffer holds max elements");
#endif
    QV_ASSERT(v->options == snap->options && v->initnum == snap->initnum && v->qmutex == snap->qmutex,
              "C10: frame - options, growth step and mutex untouched");
    QV_ASSERT(v->addat == snap->addat && v->getat == snap->getat && v->lock == snap->lock && v->unlock == snap->unlock &&
              v->resize == snap->resize && v->free == snap->free && v->clear == snap->clear && v->popat == snap->popat &&
              v->setat == snap->setat && v->removeat == snap->removeat, "C10: frame - method table untouched");
}

/* build an arbitrary INV_v state */
static struct vstate mk(void) {
    struct vstate s;
    QV_IN(int, opt);
    QV_IN(size_t, initmax);
    QV_IN(size_t, max);
    QV_IN(size_t, num);
    QV_ASSUME(opt >= 0 && opt < 16);
    QV_ASSUME(initmax <= QV_CAP(VCAP) && max <= QV_CAP(VCAP) && num <= max);
    qvector_t *v = qvector(initmax, OBJSIZE, opt);
    QV_ASSUME(v != NULL);
    /* any capacity / length, not just the constructor's */
    free(v->data);
    v->data = NULL;
    if (max > 0) {
        v->data = malloc(max * OBJSIZE);
        QV_ASSUME(v->data != NULL);
    }
    v->max = max;
    v->num = num;
    uchar *data = v->data;
    QV_IN_BYTES(data, num * OBJSIZE);
    s.v = v; s.num = num; s.max = max; s.data = v->data; s.snap = *v;
    s.ts = (opt & QVECTOR_THREADSAFE) != 0;
    QV_ASSERT(s.ts == (v->qmutex != NULL), "C10: constructor creates the mutex exactly for THREADSAFE");
    QV_IN(int, depth0);             /* the caller may already hold the (recursive) lock */
    QV_ASSUME(depth0 >= 0 && depth0 <= 2);
    gh_lock_depth = depth0; gh_lock_acquired = 0; gh_lock_outer = 0;
    s.depth0 = depth0;
    gh_num = num;
#ifdef QV_C13
    QV_ASSUME(s.ts && depth0 == 0);     /* thread-safe container, lock not held by the caller */
#endif
    return s;
}

/* choose ghost element/byte and remember its value */
static void pick_ghost(struct vstate *s) {
    QV_IN(size_t, e);
    QV_IN(size_t, b);
    QV_ASSUME(b < OBJSIZE);
    QV_ASSUME(s->num == 0 || e < s->num);
    gh_e = e; gh_b = b;
    gh_old = s->num ? ((uchar *)s->v->data)[e * OBJSIZE + b] : 0;
    gh_off = b; gh_off2 = b;
    gh_roff = e * OBJSIZE + b; gh_roff2 = gh_roff;
    C13_BEGIN(s->v);                    /* (C13 overlay) from here on the shared state is hidden until the lock is taken */
}

#define BYTE(v, e, b) (((uchar *)(v)->data)[(size_t)(e) * OBJSIZE + (b)])
#ifdef QV_C13
#define LOCK_BALANCED(s) do { C13_SETTLE(); QV_ASSERT(gh_lock_depth == (s).depth0 && gh_lock_outer <= 1, "C13: all shared accesses of the operation lie in ONE critical section, which is released on return"); gh_lock_outer = 0; } while (0)
#else
#define LOCK_BALANCED(s) QV_ASSERT(gh_lock_depth == (s).depth0, "C14: lock depth on return equals depth on entry")
#endif

static void unchanged(struct vstate *s) {
    qvector_t *v = s->v;
    QV_ASSERT(v->num == s->num && v->max == s->max && v->data == s->data, "C10,C15: refused/failed call leaves length, capacity and buffer untouched");
    if (s->num) QV_ASSERT(BYTE(v, gh_e, gh_b) == gh_old, "C10,C15: refused/failed call leaves every element untouched");
}

/* ---------------------------------------------------------------- addat */
void h_addat(void) {
    struct vstate s = mk();
    qvector_t *v = s.v;
    pick_ghost(&s);
    QV_IN(int, index);
    uchar *elem = malloc(OBJSIZE);
    QV_ASSUME(elem != NULL);
    QV_IN_BYTES(elem, OBJSIZE);
    uchar nb = elem[gh_b];
    long long idx = index < 0 ? (long long)index + (long long)s.num : index;
    bool valid = idx >= 0 && idx <= (long long)s.num;
    errno = 0;
    VARIANT_IN(2);                  /* 0: addat(index)  1: addfirst  2: addlast */
    bool r;
    if (variant == 1) { QV_ASSUME(index == 0); r = qvector_addfirst(v, elem); }
    else if (variant == 2) { QV_ASSUME(index >= 0 && (size_t)index == s.num); r = qvector_addlast(v, elem); }
    else r = qvector_addat(v, index, elem);
    LOCK_BALANCED(s);
    INV_v(v, &s.snap, "");
    if (!valid) {
        QV_ASSERT(!r && errno == ERANGE, "C10: out-of-range insertion index is refused with ERANGE");
        unchanged(&s);
#if !defined(VARIANT) || VARIANT == 0
        QV_REACH("addat refused");
#endif
    } else if (r) {
        QV_ASSERT(v->num == s.num + 1, "C10: insertion adds exactly one element");
        QV_ASSERT(BYTE(v, idx, gh_b) == nb, "C10,C12: new element stored at exactly the normalised index");
        QV_ASSERT(!QV_SAME_OBJECT(v->data, elem), "C12: vector keeps a private copy of the element");
        if (s.num) {
            if ((long long)gh_e < idx) QV_ASSERT(BYTE(v, gh_e, gh_b) == gh_old, "C10: elements before the index keep their place");
            else QV_ASSERT(BYTE(v, gh_e + 1, gh_b) == gh_old, "C10: elements at and after the index move up by one");
        }
        QV_ASSERT(elem[gh_b] == nb, "C10: caller's element untouched");
        QV_REACH("addat succeeded");
        if (s.num >= s.max) QV_REACH("addat grew the buffer");
    } else {
        QV_ASSERT(errno == ENOMEM && s.num >= s.max, "C15: a valid insertion fails only when growth could not allocate");
        unchanged(&s);
        QV_REACH("addat allocation failure");
    }
    QV_END();
}

/* index normalisation of the accessors: front-relative 0.., back-relative -1.. */
#define NORM(index, num) ((index) < 0 ? (long long)(index) + (long long)(num) : (long long)(index))

/* ---------------------------------------------------------------- getat / getfirst / getlast */
void h_getat(void) {
    struct vstate s = mk();
    qvector_t *v = s.v;
    pick_ghost(&s);
    QV_IN(int, index);
    QV_IN(bool, newmem);
    VARIANT_IN(2);
    long long idx = NORM(index, s.num);
    bool valid = idx >= 0 && idx < (long long)s.num;
    if (valid) QV_ASSUME((size_t)idx == gh_e);     /* the ghost element is the addressed one */
    errno = 0;
    void *r;
    if (variant == 1) { QV_ASSUME(index == 0); r = qvector_getfirst(v, newmem); }
    else if (variant == 2) { QV_ASSUME(index == -1); r = qvector_getlast(v, newmem); }
    else r = qvector_getat(v, index, newmem);
    LOCK_BALANCED(s);
    INV_v(v, &s.snap, "");
    unchanged(&s);                                  /* a read never changes the vector */
    if (!valid) {
        QV_ASSERT(r == NULL && errno == (s.num == 0 ? ENOENT : ERANGE), "C10: out-of-range access is refused (ENOENT on empty, ERANGE otherwise)");
        QV_REACH("getat refused");
    } else if (r == NULL) {
        QV_ASSERT(newmem && errno == ENOMEM, "C15: a valid access fails only when the copy could not be allocated");
        QV_REACH("getat allocation failure");
    } else if (newmem) {
        QV_ASSERT(!QV_SAME_OBJECT(r, v->data), "C12: copy is not the internal buffer");
#ifndef QV_NATIVE
        QV_ASSERT(QV_OBJECT_SIZE(r) == OBJSIZE && QV_POINTER_OFFSET(r) == 0, "C12: copy is a fresh exactly-sized allocation");
#endif
        QV_ASSERT(((uchar *)r)[gh_b] == gh_old, "C10,C12: copy holds the bytes of exactly the addressed element");
        free(r);
        QV_REACH("getat copy");
    } else {
        QV_ASSERT(r == (uchar *)v->data + (size_t)idx * OBJSIZE, "C10: non-copy access points at exactly the addressed element");
        QV_REACH("getat internal pointer");
    }
    QV_END();
}

/* ---------------------------------------------------------------- setat / setfirst / setlast */
void h_setat(void) {
    struct vstate s = mk();
    qvector_t *v = s.v;
    pick_ghost(&s);
    QV_IN(int, index);
    VARIANT_IN(2);
    uchar *elem = malloc(OBJSIZE);
    QV_ASSUME(elem != NULL);
    QV_IN_BYTES(elem, OBJSIZE);
    uchar nb = elem[gh_b];
    long long idx = NORM(index, s.num);
    bool valid = idx >= 0 && idx < (long long)s.num;
    errno = 0;
    bool r;
    if (variant == 1) { QV_ASSUME(index == 0); r = qvector_setfirst(v, elem); }
    else if (variant == 2) { QV_ASSUME(index == -1); r = qvector_setlast(v, elem); }
    else r = qvector_setat(v, index, elem);
    LOCK_BALANCED(s);
    INV_v(v, &s.snap, "");
    QV_ASSERT(v->num == s.num && v->max == s.max && v->data == s.data, "C10: set never changes length, capacity or buffer");
    if (!valid) {
        QV_ASSERT(!r && errno == (s.num == 0 ? ENOENT : ERANGE), "C10: out-of-range set is refused");
        unchanged(&s);
        QV_REACH("setat refused");
    } else {
        QV_ASSERT(r, "C10: in-range set succeeds");
        QV_ASSERT(BYTE(v, idx, gh_b) == nb, "C10,C12: set stores the new bytes at exactly the addressed element");
        if ((size_t)idx != gh_e) QV_ASSERT(BYTE(v, gh_e, gh_b) == gh_old, "C10: set leaves every other element untouched");
        QV_REACH("setat done");
    }
    QV_END();
}

/* ---------------------------------------------------------------- popat / removeat (+first/last) */
void h_removeat(void) {
    struct vstate s = mk();
    qvector_t *v = s.v;
    pick_ghost(&s);
    QV_IN(int, index);
    VARIANT_IN(5);                  /* 0..2 removeat/first/last, 3..5 popat/first/last */
    long long idx = NORM(index, s.num);
    bool valid = idx >= 0 && idx < (long long)s.num;
    bool pop = variant >= 3;
    /* the shifted tail is moved by ONE copy call: track the ghost element inside it */
    if (valid && (long long)gh_e > idx) gh_off2 = (gh_e - (size_t)idx - 1) * OBJSIZE + gh_b;
    uchar victim = valid ? ((uchar *)s.data)[(size_t)idx * OBJSIZE + gh_b] : 0;
    errno = 0;
    void *p = NULL;
    bool r = false;
    switch (variant) {
    case 0: r = qvector_removeat(v, index); break;
    case 1: QV_ASSUME(index == 0); r = qvector_removefirst(v); break;
    case 2: QV_ASSUME(index == -1); r = qvector_removelast(v); break;
    case 3: p = qvector_popat(v, index); r = p != NULL; break;
    case 4: QV_ASSUME(index == 0); p = qvector_popfirst(v); r = p != NULL; break;
    default: QV_ASSUME(index == -1); p = qvector_poplast(v); r = p != NULL; break;
    }
    LOCK_BALANCED(s);
    INV_v(v, &s.snap, "");
    if (!valid) {
        QV_ASSERT(!r && errno == (s.num == 0 ? ENOENT : ERANGE), "C10: out-of-range removal is refused");
        unchanged(&s);
        QV_REACH("remove refused");
    } else if (!r) {
        QV_ASSERT(pop && errno == ENOMEM, "C15: a valid removal fails only when pop could not allocate the copy");
        unchanged(&s);
#if !defined(VARIANT) || VARIANT >= 3
        QV_REACH("pop allocation failure");
#endif
    } else {
        QV_ASSERT(v->num == s.num - 1 && v->max == s.max && v->data == s.data, "C10: removal drops exactly one element, capacity unchanged");
        if ((long long)gh_e < idx) QV_ASSERT(BYTE(v, gh_e, gh_b) == gh_old, "C10: elements before the removed one keep their place");
        if ((long long)gh_e > idx) QV_ASSERT(BYTE(v, gh_e - 1, gh_b) == gh_old, "C10: elements after the removed one move down by one");
        if (pop) {
            QV_ASSERT(!QV_SAME_OBJECT(p, v->data), "C12: popped element is an independent allocation");
            QV_ASSERT(((uchar *)p)[gh_b] == victim, "C10,C12: pop returns the bytes of exactly the addressed element");
            free(p);
#if !defined(VARIANT) || VARIANT >= 3
            QV_REACH("pop done");
#endif
        } else {
#if !defined(VARIANT) || VARIANT < 3
            QV_REACH("remove done");
#endif
        }
    }
    QV_END();
}

/* ---------------------------------------------------------------- resize */
void h_resize(void) {
    struct vstate s = mk();
    qvector_t *v = s.v;
    pick_ghost(&s);
    QV_IN(size_t, newmax);
    QV_ASSUME(newmax <= QV_CAP(VCAP));
    errno = 0;
    bool r = qvector_resize(v, newmax);
    LOCK_BALANCED(s);
    if (!r) {
        QV_ASSERT(errno == ENOMEM && newmax != 0, "C15: resize fails only on allocation failure");
        INV_v(v, &s.snap, "");
        unchanged(&s);
        QV_REACH("resize allocation failure");
    } else {
        INV_v(v, &s.snap, "");      /* includes: element size unchanged and non-zero - vector stays usable */
        QV_ASSERT(v->max == newmax, "C10: capacity is exactly the requested one");
        QV_ASSERT(v->num == (s.num < newmax ? s.num : newmax), "C10: resize keeps min(num, newmax) elements");
        QV_ASSERT((newmax == 0) == (v->data == NULL), "C10: buffer released exactly for capacity 0");
        if (s.num && gh_e < v->num) QV_ASSERT(BYTE(v, gh_e, gh_b) == gh_old, "C10: capacity change never alters a surviving element");
        if (newmax == 0) QV_REACH("resize to zero");
        if (newmax < s.num) QV_REACH("resize shrinks below length");
        if (newmax > s.max) QV_REACH("resize grows");
    }
    QV_END();
}

/* ---------------------------------------------------------------- size / clear */
void h_size_clear(void) {
    struct vstate s = mk();
    qvector_t *v = s.v;
    pick_ghost(&s);
#ifndef QV_C13
    QV_ASSERT(qvector_size(v) == s.num, "C10: size reports the element count");
#endif
    LOCK_BALANCED(s);
    unchanged(&s);
    qvector_clear(v);
    LOCK_BALANCED(s);
    INV_v(v, &s.snap, "");
    QV_ASSERT(v->num == 0 && v->max == s.max && v->data == s.data, "C10: clear empties the vector and keeps the capacity");
#ifndef QV_C13
    QV_ASSERT(qvector_size(v) == 0, "C10: size after clear is 0");
#endif
    QV_END();
}

/* ---------------------------------------------------------------- toarray */
void h_toarray(void) {
    struct vstate s = mk();
    qvector_t *v = s.v;
    pick_ghost(&s);
    gh_off = gh_e * OBJSIZE + gh_b;    /* one copy of the whole contents: track the ghost byte in it */
    QV_IN(bool, wantsize);
    size_t n = 12345;
    errno = 0;
    uchar *a = qvector_toarray(v, wantsize ? &n : NULL);
    LOCK_BALANCED(s);
    INV_v(v, &s.snap, "");
    unchanged(&s);
    if (s.num == 0) {
        QV_ASSERT(a == NULL && errno == ENOENT && (!wantsize || n == 0), "C10: flattening an empty vector reports ENOENT and size 0");
        QV_REACH("toarray empty");
    } else if (a == NULL) {
        QV_ASSERT(errno == ENOMEM, "C15: toarray fails only on allocation failure");
        QV_REACH("toarray allocation failure");
    } else {
        QV_ASSERT(!wantsize || n == s.num, "C10: toarray reports the exact element count");
        QV_ASSERT(!QV_SAME_OBJECT(a, v->data), "C12: flattened array is an independent allocation");
#ifndef QV_NATIVE
        QV_ASSERT(QV_OBJECT_SIZE(a) == s.num * OBJSIZE, "C12: flattened array has exactly num*objsize bytes");
#endif
        QV_ASSERT(a[gh_e * OBJSIZE + gh_b] == gh_old, "C10,C12: flattened array reflects the exact contents in order");
        free(a);
        QV_REACH("toarray done");
    }
    QV_END();
}

/* ---------------------------------------------------------------- reverse */
void h_reverse(void) {
    struct vstate s = mk();
    qvector_t *v = s.v;
    pick_ghost(&s);
    errno = 0;
    qvector_reverse(v);
    LOCK_BALANCED(s);
    INV_v(v, &s.snap, "");
    QV_ASSERT(v->num == s.num && v->max == s.max && v->data == s.data, "C10: reverse keeps length, capacity and buffer");
    if (s.num) {
        if (errno == ENOMEM) {
            QV_ASSERT(BYTE(v, gh_e, gh_b) == gh_old, "C15: reverse that could not allocate leaves the order untouched");
            QV_REACH("reverse allocation failure");
        } else {
            QV_ASSERT(BYTE(v, s.num - 1 - gh_e, gh_b) == gh_old, "C10: reverse puts element e at position num-1-e");
            QV_REACH("reverse done");
        }
    }
    QV_END();
}

/* ---------------------------------------------------------------- getnext (one step from ANY cursor) */
void h_getnext(void) {
    struct vstate s = mk();
    qvector_t *v = s.v;
    pick_ghost(&s);
    QV_IN(int, cur);
    QV_IN(bool, newmem);
    QV_ASSUME(cur >= 0);
    if ((size_t)cur < s.num) QV_ASSUME((size_t)cur == gh_e);
    qvector_obj_t o;
    o.index = cur; o.data = NULL;
    errno = 0;
    bool r = qvector_getnext(v, &o, newmem);
    LOCK_BALANCED(s);
    INV_v(v, &s.snap, "");
    unchanged(&s);
    if ((size_t)cur >= s.num) {
        QV_ASSERT(!r && errno == ENOENT && o.data == NULL, "C10: walk reports the end exactly after the last element");
        QV_REACH("getnext end");
    } else if (!r) {
        QV_ASSERT(newmem && errno == ENOMEM && o.index == cur, "C15: walk step fails only on allocation failure and does not advance");
    } else {
        QV_ASSERT(o.index == cur + 1, "C10: walk advances by exactly one element");
        QV_ASSERT(((uchar *)o.data)[gh_b] == gh_old, "C10,C12: walk step yields the bytes of element cur");
        if (newmem) { QV_ASSERT(!QV_SAME_OBJECT(o.data, v->data), "C12: walk copy is independent"); free(o.data); }
        else QV_ASSERT(o.data == (uchar *)v->data + (size_t)cur * OBJSIZE, "C10: walk step without copy points at element cur");
        QV_REACH("getnext step");
    }
    QV_ASSERT(qvector_getnext(v, NULL, newmem) == false, "C10: NULL cursor is refused");
    LOCK_BALANCED(s);
    QV_END();
}

/* ---------------------------------------------------------------- constructor and free: ownership */
void h_ctor_free(void) {
    QV_IN(size_t, max);
    QV_IN(size_t, objsize);
    QV_IN(int, opt);
    QV_ASSUME(max <= QV_CAP(VCAP) && objsize <= 64 && opt >= 0 && opt < 16);
    gh_lock_depth = 0; gh_lock_acquired = 0; gh_lock_outer = 0;
    errno = 0;
    qvector_t *v = qvector(max, objsize, opt);
    if (v == NULL) {
        QV_ASSERT(errno == (objsize == 0 ? EINVAL : ENOMEM), "C15: constructor failure is reported as EINVAL (zero element size) or ENOMEM");
        QV_REACH("ctor failed");
        /* nothing may be left allocated: checked by the memory-leak obligation of this group */
    } else {
        QV_ASSERT(objsize != 0, "C10: zero element size is refused");
        QV_ASSERT(v->num == 0 && v->max == max && v->objsize == objsize, "C10: new vector is empty with the requested capacity");
        QV_ASSERT((max == 0) == (v->data == NULL), "C10: buffer allocated exactly when capacity > 0");
        QV_ASSERT(((opt & QVECTOR_THREADSAFE) != 0) == (v->qmutex != NULL), "C13: mutex exists exactly for THREADSAFE");
        QV_ASSERT(v->options == ((opt & QVECTOR_RESIZE_DOUBLE) ? QVECTOR_RESIZE_DOUBLE : (opt & QVECTOR_RESIZE_LINEAR) ? QVECTOR_RESIZE_LINEAR : QVECTOR_RESIZE_EXACT),
                  "C10: exactly one growth policy is selected");
        QV_ASSERT(!(v->options & QVECTOR_RESIZE_LINEAR) || v->initnum >= 1, "C10: linear growth step is at least one");
        QV_IN(size_t, num);
        QV_ASSUME(num <= max);
        v->num = num;
        qvector_free(v);
        QV_ASSERT(gh_lock_depth == 0, "C14: free leaves no lock held");
        QV_REACH("ctor ok and freed");
    }
    QV_END();
}
