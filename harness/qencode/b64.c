/* contracts for qbase64_encode / qbase64_decode and _q_makeword (C16, C17, C11, C12) */
#include "qv.h"
typedef unsigned char uchar;
size_t gh_len;      /* terminator index of the string handed to an in-place routine */
size_t gh_k;        /* ghost index */
char gh_c0;         /* original character at the ghost index */
int gh_wlen;        /* _q_makeword: length of the split-off word */
#define ISB64(c) (((c) >= 'A' && (c) <= 'Z') || ((c) >= 'a' && (c) <= 'z') || ((c) >= '0' && (c) <= '9') || (c) == '+' || (c) == '/')
#include "src/internal/qinternal.c"
#include "src/utilities/qencode.c"

static const char SPEC_B64[65] = "ABCDEFGHIJKLMNOPQRSTUVWXYZabcdefghijklmnopqrstuvwxyz0123456789+/";

/* qbase64_decode on ANY NUL-terminated string: safety, termination, length bound (C17) */
void h_b64_decode_safe(void) {
    QV_IN(size_t, len);
    QV_ASSUME(len <= QV_CAP(1000000));
    char *str = malloc(len + 1);
    QV_ASSUME(str != NULL);
    QV_IN_BYTES(str, len);
    str[len] = '\0';
    gh_len = len;
    size_t ret = qbase64_decode(str);
    QV_ASSERT(ret <= len, "C17: Base64 decoder never produces more bytes than the input had");
    QV_ASSERT(str[ret] == '\0', "C17: decoded data is NUL-terminated");
    free(str);
    QV_END();
}

/* bounded stand-in: every input of length exactly B64N (instances 1..6) over all byte values: RFC 4648 output format and round trip */
#ifndef B64N
#define B64N 4
#endif
void h_b64_roundtrip_bounded(void) {
    const size_t n = B64N;          /* per-instance constant: keeps every allocation size concrete */
    uchar in[B64N];
    QV_IN_BYTES(in, n);
#ifndef QV_NATIVE
    for (size_t i = 0; i < B64N; i++) in[i] = nondet_uchar();
#endif
    char *enc = qbase64_encode(in, n);
    if (enc != NULL) {
        size_t el = 4 * ((n + 2) / 3);
        QV_ASSERT(strlen(enc) == el, "C16: Base64 output length is 4*ceil(n/3)");
        size_t pad = (3 - n % 3) % 3;
        for (size_t i = 0; i < el; i++) {
            char c = enc[i];
            bool inalpha = (c >= 'A' && c <= 'Z') || (c >= 'a' && c <= 'z') || (c >= '0' && c <= '9') || c == '+' || c == '/';
            if (i >= el - pad) QV_ASSERT(enc[i] == '=', "C16: Base64 padding is '=' in exactly the last (3 - n mod 3) mod 3 positions");
            else QV_ASSERT(inalpha, "C16: Base64 output uses only the RFC 4648 standard alphabet");
        }
        /* RFC 4648 first block, independently computed */
        QV_ASSERT(enc[0] == SPEC_B64[in[0] >> 2], "C16: first sextet per RFC 4648");
        QV_ASSERT(enc[1] == SPEC_B64[((in[0] & 3) << 4) | (n > 1 ? in[1] >> 4 : 0)], "C16: second sextet per RFC 4648");
        if (n > 1) QV_ASSERT(enc[2] == SPEC_B64[((in[1] & 15) << 2) | (n > 2 ? in[2] >> 6 : 0)], "C16: third sextet per RFC 4648");
        if (n > 2) QV_ASSERT(enc[3] == SPEC_B64[in[2] & 63], "C16: fourth sextet per RFC 4648");
        size_t ret = qbase64_decode(enc);
        QV_ASSERT(ret == n, "C16: Base64 round trip returns the exact length");
        for (size_t i = 0; i < n; i++) QV_ASSERT((uchar)enc[i] == in[i], "C16: Base64 round trip reproduces every byte (incl. bytes >= 0x80)");
        free(enc);
    }
    QV_END();
}

/* _q_makeword on ANY NUL-terminated string and any stop character (C17 safety/termination) with its
 * splitting semantics for a ghost index: word = prefix before the first stop, str = remainder after it */
void h_makeword(void) {
    QV_IN(size_t, len);
    QV_ASSUME(len <= QV_CAP(1000000));
    char *str = malloc(len + 1);
    QV_ASSUME(str != NULL);
    QV_IN_BYTES(str, len);
    str[len] = '\0';
    QV_IN(char, stop);
    QV_IN(size_t, k);
    QV_ASSUME(k <= len);
    gh_len = len; gh_k = k; gh_c0 = str[k]; gh_wlen = -1;
    char *w = _q_makeword(str, stop);
    if (w != NULL) {
        size_t wl = (size_t)gh_wlen;
        QV_ASSERT(gh_wlen >= 0 && wl <= len && w[wl] == '\0', "C17: word is terminated and not longer than the input");
#ifndef QV_NATIVE
        QV_ASSERT(QV_OBJECT_SIZE(w) == wl + 1 && !QV_SAME_OBJECT(w, str), "C12: word is a fresh exactly-sized allocation");
#endif
        if (k < wl) QV_ASSERT(w[k] == gh_c0 && gh_c0 != stop && gh_c0 != 0, "C17: word holds the characters before the first stop character");
        if (k == wl) QV_ASSERT(gh_c0 == stop || gh_c0 == 0, "C17: word ends at the first stop character or the terminator");
        QV_REACH("makeword done");
    }
    free(w);
    free(str);
    QV_END();
}

/* qbase64_encode on input of ANY length: the output is a fresh exactly-sized object of 4*ceil(n/3)+1 bytes (every write inside
 * it: bounds obligations), NUL-terminated at 4*ceil(n/3); every output character (ghost position) is from the standard alphabet,
 * '=' occurs only as padding at the very end: two for n % 3 == 1, one for n % 3 == 2, none otherwise; the loop terminates. */
void h_b64_encode_format(void) {
    QV_IN(size_t, n);
    QV_ASSUME(n >= 1 && n <= QV_CAP(1000000));
    uchar *bin = malloc(n);
    QV_ASSUME(bin != NULL);
    QV_IN_BYTES(bin, n);
    QV_IN(size_t, k);
    size_t el = 4 * ((n + 2) / 3);
    QV_ASSUME(k < el);
    gh_k = k;
    char *out = qbase64_encode(bin, n);
    if (out != NULL) {
#ifndef QV_NATIVE
        QV_ASSERT(QV_OBJECT_SIZE(out) == el + 1 && QV_POINTER_OFFSET(out) == 0 && !QV_SAME_OBJECT(out, bin), "C12: Base64 output is a fresh exactly-sized object");
#endif
        QV_ASSERT(out[el] == '\0', "C16: Base64 output is NUL-terminated at 4*ceil(n/3)");
        size_t pad = n % 3 == 1 ? 2 : n % 3 == 2 ? 1 : 0;
        if (k < el - pad) QV_ASSERT(ISB64(out[k]), "C16: every Base64 character before the padding is from the standard alphabet (no '=' inside)");
        else QV_ASSERT(out[k] == '=', "C16: Base64 padding is exactly two '=' for n%3==1 and one for n%3==2");
        QV_REACH("b64 format");
        free(out);
    }
    free(bin);
    QV_END();
}
