/* contracts for qhex_encode / qhex_decode (C16, C17, C11, C12) - carrier B, ghost index gh_k */
#include "qv.h"
typedef unsigned char uchar;
size_t gh_k;   /* ghost index: one arbitrary input byte stands for all of them */
size_t gh_len; /* length of the string handed to an in-place decoder (terminator index) */
char gh_c0, gh_c1;  /* original characters of the ghost pair, read before the decoder runs */
#include "src/utilities/qencode.c"

static char spec_hexdigit(unsigned v) { return (char)(v < 10 ? '0' + v : 'a' + (v - 10)); }

/* qhex_encode: for every n and every byte k<n: out[2k..2k+1] are the two lower-case hex digits of
 * bin[k]; out is a fresh object of exactly 2n+1 bytes, NUL terminated. */
void h_hex_encode(void) {
    QV_IN(size_t, n);
    QV_ASSUME(n <= QV_CAP(1000000));
    uchar *bin = malloc(n + 1);     /* n+1: one guard byte we never initialise or allow reading */
    QV_ASSUME(bin != NULL);
    QV_IN_BYTES(bin, n);
    QV_IN(size_t, k);
    QV_ASSUME(n == 0 || k < n);
    gh_k = k;
    uchar bk = n ? bin[k] : 0;
    char *out = qhex_encode(bin, n);
    if (out != NULL) {
        QV_ASSERT(out[2 * n] == '\0', "C16: hex output is NUL-terminated at 2n");
#ifndef QV_NATIVE
        QV_ASSERT(QV_OBJECT_SIZE(out) == 2 * n + 1 && QV_POINTER_OFFSET(out) == 0, "C12: hex output is a fresh exactly-sized object");
        QV_ASSERT(!QV_SAME_OBJECT(out, bin), "C12: hex output does not alias the input");
#endif
        if (n > 0) {
            QV_ASSERT(out[2 * k] == spec_hexdigit(bk >> 4), "C16: high hex digit of byte k, lower case");
            QV_ASSERT(out[2 * k + 1] == spec_hexdigit(bk & 15), "C16: low hex digit of byte k, lower case");
            QV_ASSERT(bin[k] == bk, "C16: input unchanged");
        }
        free(out);
    }
    free(bin);
    QV_END();
}

static uchar spec_hexval(uchar c) {
    if (c >= '0' && c <= '9') return c - '0';
    if (c >= 'a' && c <= 'f') return c - 'a' + 10;
    if (c >= 'A' && c <= 'F') return c - 'A' + 10;
    return 0;
}

/* qhex_decode on ANY NUL-terminated string of any length (exactly-sized buffer, arbitrary bytes):
 *   safety/termination (C17): no access outside the buffer, result length <= input length / 2,
 *   semantics (C16): the result is the sequence of decoded pairs up to the first pair that
 *   contains a NUL: for the ghost pair k < ret both characters were non-NUL and byte k is
 *   16*val(c0)+val(c1) (both digit cases accepted); the pair at index ret contains a NUL. */
void h_hex_decode(void) {
    QV_IN(size_t, len);
    QV_ASSUME(len <= QV_CAP(1000000));
    char *str = malloc(len + 1);
    QV_ASSUME(str != NULL);
    QV_IN_BYTES(str, len);
    str[len] = '\0';
    QV_IN(size_t, k);
    QV_ASSUME(k <= len && 2 * k <= len);
    gh_k = k; gh_len = len;
    gh_c0 = str[2 * k];
    gh_c1 = (2 * k + 1 <= len) ? str[2 * k + 1] : 0;
    size_t ret = qhex_decode(str);
    QV_ASSERT(2 * ret <= len, "C17: hex decoder never produces more bytes than half the input length");
    QV_ASSERT(str[ret] == '\0', "C17: decoded data is NUL-terminated");
    if (k < ret) {
        QV_ASSERT(gh_c0 != 0 && gh_c1 != 0, "C16: every decoded pair lies before the terminator");
        QV_ASSERT((uchar)str[k] == (uchar)((spec_hexval(gh_c0) << 4) + spec_hexval(gh_c1)), "C16: byte k is the value of hex pair k (both digit cases)");
        QV_REACH("hex pair decoded");
    }
    if (k == ret) {
        QV_ASSERT(gh_c0 == 0 || gh_c1 == 0, "C16: decoding stops exactly at the first pair containing the terminator");
        QV_REACH("hex decode stop pair");
    }
    free(str);
    QV_END();
}

/* round trip, any length: qhex_decode(qhex_encode(x)) == x with the exact length */
void h_hex_roundtrip(void) {
    QV_IN(size_t, n);
    QV_ASSUME(n <= QV_CAP(1000000));
    uchar *bin = malloc(n + 1);
    QV_ASSUME(bin != NULL);
    QV_IN_BYTES(bin, n);
    QV_IN(size_t, k);
    QV_ASSUME(k <= n);
    gh_k = k;
    uchar bk = k < n ? bin[k] : 0;
    char *enc = qhex_encode(bin, n);
    if (enc != NULL) {
        gh_len = 2 * n;
        gh_c0 = enc[2 * k];
        gh_c1 = k < n ? enc[2 * k + 1] : 0;
        size_t ret = qhex_decode(enc);
        /* k is arbitrary and does not influence the computation: the run in which it equals
         * min(ret, n) shows ret == n (prophecy instantiation of the ghost index) */
        if (ret < n) { QV_ASSUME(k == ret); QV_ASSERT(0, "C16: hex round trip does not stop early"); }
        if (ret > n) { QV_ASSUME(k == n); QV_ASSERT(0, "C16: hex round trip does not run past the encoded data"); }
        QV_ASSERT(ret == n || k != (ret < n ? ret : n), "C16: hex round trip returns the exact length");
        if (k < n && ret == n) QV_ASSERT((uchar)enc[k] == bk, "C16: hex round trip reproduces byte k");
        free(enc);
    }
    free(bin);
    QV_END();
}

/* table lemma over all 256 byte values: decode digits of encode digits */
void h_hex_tables(void) {
    QV_IN(uchar, b);
    char hi = spec_hexdigit(b >> 4), lo = spec_hexdigit(b & 15);
    QV_ASSERT((uchar)((spec_hexval(hi) << 4) + spec_hexval(lo)) == b, "C16: spec digits invert for every byte value");
    QV_ASSERT(hi != 0 && lo != 0 && ((hi >= '0' && hi <= '9') || (hi >= 'a' && hi <= 'f')), "C16: hex digits are lower case and never NUL");
    QV_END();
}
