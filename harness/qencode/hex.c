/* contracts for qhex_encode / qhex_decode (C16, C17, C11, C12) - carrier B, ghost index gh_k */
#include "qv.h"
typedef unsigned char uchar;
size_t gh_k;   /* ghost index: one arbitrary input byte stands for all of them */
#include "src/utilities/qencode.c"

static char spec_hexdigit(unsigned v) { return (char)(v < 10 ? '0' + v : 'a' + (v - 10)); }

/* qhex_encode: for every n and every byte k<n: out[2k..2k+1] are the two lower-case hex digits of
 * bin[k]; out is a fresh object of exactly 2n+1 bytes, NUL terminated. */
void h_hex_encode(void) {
    QV_IN(size_t, n);
    QV_ASSUME(n <= QV_CAP(1000000));
    uchar *bin = malloc(n + 1);     /* n+1: one guard byte we never initialise or allow reading */
    QV_ASSUME(bin != NULL);
    QV_IN_BYTES(bin, n);
    QV_IN(size_t, k);
    QV_ASSUME(n == 0 || k < n);
    gh_k = k;
    uchar bk = n ? bin[k] : 0;
    char *out = qhex_encode(bin, n);
    if (out != NULL) {
        QV_ASSERT(out[2 * n] == '\0', "C16: hex output is NUL-terminated at 2n");
#ifndef QV_NATIVE
        QV_ASSERT(QV_OBJECT_SIZE(out) == 2 * n + 1 && QV_POINTER_OFFSET(out) == 0, "C12: hex output is a fresh exactly-sized object");
        QV_ASSERT(!QV_SAME_OBJECT(out, bin), "C12: hex output does not alias the input");
#endif
        if (n > 0) {
            QV_ASSERT(out[2 * k] == spec_hexdigit(bk >> 4), "C16: high hex digit of byte k, lower case");
            QV_ASSERT(out[2 * k + 1] == spec_hexdigit(bk & 15), "C16: low hex digit of byte k, lower case");
            QV_ASSERT(bin[k] == bk, "C16: input unchanged");
        }
        free(out);
    }
    free(bin);
    QV_END();
}
