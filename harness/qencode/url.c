/* contracts for qurl_encode / qurl_decode / _q_x2c (C16, C17, C11, C12) - carrier B, ghost index */
#include "qv.h"
typedef unsigned char uchar;
size_t gh_k;            /* ghost input index (encoder) */
size_t gh_pos, gh_pos2; /* output offset at which byte gh_k / gh_k+1 is encoded (set by woven ghost statements) */
size_t gh_end;          /* output length at loop exit */
size_t gh_len;          /* decoder: index of the terminator of the input string */
size_t gh_r, gh_w;      /* decoder: ghost read offset (a token start if gh_hit) and the write offset of that token */
int gh_hit;
char gh_c0, gh_c1, gh_c2;  /* decoder: original characters at gh_r, gh_r+1, gh_r+2 */

/* expression forms usable inside loop invariants (no calls allowed there) */
#define HEXLO(v) ((char)((v) < 10 ? (v) + '0' : (v) - 10 + 'a'))
#define X2C1(h) ((h) >= 'A' ? (((h) & 0xdf) - 'A') + 10 : (h) - '0')
#define X2C(a, b) ((char)(16 * X2C1(a) + X2C1(b)))
/* decoded value of the token starting with c0 (c1,c2 are the following characters, 0 past the end) */
#define TOKVAL(c0, c1, c2) ((c0) == '+' ? ' ' : ((c0) == '%' && (c1) != 0 && (c2) != 0) ? X2C(c1, c2) : (c0))
#define TOKLEN(c0, c1, c2) (((c0) == '%' && (c1) != 0 && (c2) != 0) ? 3 : 1)

#include "src/internal/qinternal.c"
#include "src/utilities/qencode.c"

/* the property's wording: literal characters are URL-safe ASCII, never space/control/non-ASCII nor % + & = ? # " < > */
static bool spec_may_be_literal(uchar c) {
    if (c <= 0x20 || c >= 0x7f) return false;
    if (c == '%' || c == '+' || c == '&' || c == '=' || c == '?' || c == '#' || c == '"' || c == '<' || c == '>') return false;
    return true;
}

/* qurl_encode, any length: the output is the concatenation of the per-byte encodings: byte k is
 * encoded at offset pos(k), pos(0)=0, pos(k+1)=pos(k)+len(k), the string ends at pos(n);
 * a byte is emitted literally only if URL-safe, otherwise as %hh with lower-case digits */
void h_url_encode(void) {
    QV_IN(size_t, n);
    QV_ASSUME(n >= 1 && n <= QV_CAP(1000000));
    uchar *bin = malloc(n);
    QV_ASSUME(bin != NULL);
    QV_IN_BYTES(bin, n);
    QV_IN(size_t, k);
    QV_ASSUME(k < n);
    gh_k = k; gh_pos = 0; gh_pos2 = 0; gh_end = 0;
    uchar bk = bin[k];
    char *out = qurl_encode(bin, n);
    if (out != NULL) {
#ifndef QV_NATIVE
        QV_ASSERT(QV_OBJECT_SIZE(out) == 3 * n + 1 && !QV_SAME_OBJECT(out, bin), "C12: URL output is a fresh buffer of 3n+1 bytes");
        size_t next = (k + 1 < n) ? gh_pos2 : gh_end;
        size_t l = next - gh_pos;
        QV_ASSERT(k != 0 || gh_pos == 0, "C16: encoding of byte 0 starts at offset 0");
        QV_ASSERT(l == 1 || l == 3, "C16: each byte is encoded as one literal or one %hh triple, directly followed by the next byte's encoding");
        QV_ASSERT(out[gh_end] == '\0' && gh_end <= 3 * n, "C16: URL output is terminated right after the last byte's encoding");
        if (l == 1) {
            QV_ASSERT((uchar)out[gh_pos] == bk, "C16: a literal output character is the input byte itself");
            QV_ASSERT(spec_may_be_literal(bk), "C16: only URL-safe ASCII is emitted literally (never space, control, non-ASCII, % + & = ? # \" < >)");
            QV_REACH("url literal");
        } else {
            QV_ASSERT(out[gh_pos] == '%' && out[gh_pos + 1] == HEXLO(bk >> 4) && out[gh_pos + 2] == HEXLO(bk & 15), "C16: every other byte is emitted as %hh with lower-case hex digits");
            QV_REACH("url escape");
        }
#endif
        QV_ASSERT(bin[k] == bk, "C16: input unchanged");
        free(out);
    }
    free(bin);
    QV_END();
}

/* qurl_decode on ANY NUL-terminated string (exactly-sized buffer, arbitrary bytes):
 *  C17: no access outside the buffer, terminates, result length <= input length, terminated;
 *  C16: the token starting at an arbitrary ghost read offset decodes to '+'->' ', %hh->byte (both digit
 *       cases), anything else to itself, and is written at the write offset current at that token. */
void h_url_decode(void) {
    QV_IN(size_t, len);
    QV_ASSUME(len <= QV_CAP(1000000));
    char *str = malloc(len + 1);
    QV_ASSUME(str != NULL);
    QV_IN_BYTES(str, len);
    str[len] = '\0';
    QV_IN(size_t, r);
    QV_ASSUME(r <= len);
    gh_len = len; gh_r = r; gh_hit = 0; gh_w = 0;
    gh_c0 = str[r];
    gh_c1 = r + 1 <= len ? str[r + 1] : 0;
    gh_c2 = r + 2 <= len ? str[r + 2] : 0;
    size_t ret = qurl_decode(str);
    QV_ASSERT(ret <= len, "C17: URL decoder never produces more bytes than the input had");
    QV_ASSERT(str[ret] == '\0', "C17: decoded string is NUL-terminated");
    if (gh_hit) {
        QV_ASSERT(gh_w < ret && gh_c0 != 0, "C16: a token is decoded to exactly one output byte");
        QV_ASSERT(str[gh_w] == TOKVAL(gh_c0, gh_c1, gh_c2), "C16: '+' decodes to space, %hh to the byte (either digit case), other characters to themselves");
        QV_REACH("url token decoded");
        if (gh_c0 == '%') QV_REACH("url escape decoded");
    }
    QV_ASSERT(qurl_decode(NULL) == 0, "C17: NULL input is refused");
    free(str);
    QV_END();
}

/* per-byte inverse, complete over all 256 values (single byte, loops unwound): decode(encode(b)) == b */
void h_url_byte_roundtrip(void) {
    QV_IN(uchar, b);
    uchar in[1];
    in[0] = b;
    char *enc = qurl_encode(in, 1);
    if (enc != NULL) {
        size_t l = strlen(enc);
        QV_ASSERT(l == 1 || l == 3, "C16: one byte encodes to 1 or 3 characters");
        size_t ret = qurl_decode(enc);
        QV_ASSERT(ret == 1 && (uchar)enc[0] == b && enc[1] == '\0', "C16: URL decode inverts URL encode for every byte value");
        free(enc);
    }
    /* upper-case digits are accepted as well */
    char up[4];
    up[0] = '%';
    up[1] = (b >> 4) < 10 ? '0' + (b >> 4) : 'A' + ((b >> 4) - 10);
    up[2] = (b & 15) < 10 ? '0' + (b & 15) : 'A' + ((b & 15) - 10);
    up[3] = 0;
    QV_ASSERT(qurl_decode(up) == 1 && (uchar)up[0] == b, "C16: upper-case %HH decodes to the same byte");
    QV_END();
}

/* whole-string round trip, every string of length <= URLN over all byte values (bounded stand-in) */
#ifndef URLN
#define URLN 3
#endif
void h_url_roundtrip_bounded(void) {
    const size_t n = URLN;          /* per-instance constant */
    uchar in[URLN];
    QV_IN_BYTES(in, n);
#ifndef QV_NATIVE
    for (size_t i = 0; i < URLN; i++) in[i] = nondet_uchar();
#endif
    char *enc = qurl_encode(in, n);
    if (enc != NULL) {
        size_t ret = qurl_decode(enc);
        QV_ASSERT(ret == n, "C16: URL round trip returns the exact length");
        for (size_t i = 0; i < n; i++) QV_ASSERT((uchar)enc[i] == in[i], "C16: URL round trip reproduces every byte");
        free(enc);
    }
    QV_END();
}
