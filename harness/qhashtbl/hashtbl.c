/*
 * Contracts for qhashtbl.c (C05, C11, C12, C14, C15).
 * State: EVERY table satisfying INV_h with range HR (per-instance constant 1..3) and exactly HN entries
 * (per-instance constant) whose keys are distinct one-character names from an alphabet of ALPHA
 * characters; values 1..2 symbolic bytes.  The hash function is an UNINTERPRETED deterministic function of
 * the key (a nondeterministic table), so equal hashes with different names, shared chains and every
 * head/middle/tail position occur.  Built by direct construction.  After the call the real chains are
 * walked and compared with the ideal map for EVERY key of the alphabet.
 */
#include "qv.h"
typedef unsigned char uchar;
#ifndef HR
#define HR 2
#endif
#ifndef HN
#define HN 2
#endif
#define ALPHA 4
#define VSZ 2
#ifdef QV_C13
#define QV_LOCK_HOOKS
#endif
#include "qv_pthread.h"

/* assumed contract of the hash dependency (its own correctness is C18): deterministic function of the key bytes */
static uint32_t gh_hash[ALPHA];
static uint32_t qv_hash_of(char c) { return (c >= 'a' && c < 'a' + ALPHA) ? gh_hash[c - 'a'] : 12345u + (uchar)c; }
uint32_t qhashmurmur3_32(const void *data, size_t nbytes) {
    return nbytes == 1 ? qv_hash_of(*(const char *)data) : (nbytes == 0 ? 0 : 777u);
}
#include "src/containers/qhashtbl.c"

#ifdef QV_C13
/* C13 overlay (see harness/qvector/vector.c): num and the chain heads are poison while the table lock is not held */
static qhashtbl_t *c13_t; static size_t c13_num; static qhashtbl_obj_t *c13_slots[HR];
static void c13_reveal(void) { c13_t->num = c13_num; for (int j = 0; j < HR; j++) c13_t->slots[j] = c13_slots[j]; }
static void c13_hide(void) { c13_num = c13_t->num; c13_t->num = nondet_size_t(); for (int j = 0; j < HR; j++) { c13_slots[j] = c13_t->slots[j]; c13_t->slots[j] = NULL; } }
void qv_on_acquire(void) { if (c13_t) c13_reveal(); }
void qv_on_release(void) { if (c13_t) c13_hide(); }
#define C13_END() do { c13_t = NULL; } while (0)      /* overlay off: the harness releases the container */
#define C13_BEGIN(t) do { c13_t = (t); gh_lock_outer = 0; c13_hide(); } while (0)
#define C13_SETTLE() do { if (c13_t) c13_reveal(); } while (0)
#else
#define C13_BEGIN(t) do { } while (0)
#define C13_SETTLE() do { } while (0)
#define C13_END() do { } while (0)
#endif
struct model { bool has[ALPHA]; size_t size[ALPHA]; uchar data[ALPHA][VSZ]; };
struct hstate { qhashtbl_t *t; struct model m; int depth0; };

static struct hstate mk(void) {
    struct hstate s;
    QV_IN(bool, ts);
    for (int i = 0; i < ALPHA; i++) { QV_IN(uint32_t, hv); QV_ASSUME(hv < 12); /* every residue pattern modulo 1..3 and equal hashes of different keys occur below 12 */ gh_hash[i] = hv; s.m.has[i] = false; s.m.size[i] = 0; }
    /* the table object itself: concrete addresses (QV_ALLOC), fields exactly as the constructor leaves them
     * (group hashtbl_ctor checks the constructor); the method table is not used by the functions under contract */
    qhashtbl_t *t = QV_ALLOC(sizeof *t);
    t->slots = QV_ALLOC(HR * sizeof(qhashtbl_obj_t *));
    t->range = HR;
    t->qmutex = ts ? QV_ALLOC(sizeof(qmutex_t)) : NULL;
    t->getnext = qhashtbl_getnext;
    for (int i = 0; i < HN; i++) {
        QV_IN(int, ki);
        QV_ASSUME(ki >= 0 && ki < ALPHA && !s.m.has[ki]);
        QV_IN(size_t, vs);
        QV_ASSUME(vs >= 1 && vs <= VSZ);
        qhashtbl_obj_t *o = QV_ALLOC(sizeof *o);
        char *nm = QV_ALLOC(2);
        uchar *val = QV_ALLOC(vs);
        QV_IN_BYTES(val, vs);
        nm[0] = 'a' + ki; nm[1] = 0;
        o->hash = gh_hash[ki]; o->name = nm; o->data = val; o->size = vs;
        int idx = o->hash % HR;
        o->next = t->slots[idx]; t->slots[idx] = o;
        s.m.has[ki] = true; s.m.size[ki] = vs;
        for (int b = 0; b < VSZ; b++) s.m.data[ki][b] = b < (int)vs ? val[b] : 0;
    }
    t->num = HN;
    QV_IN(int, depth0);
    QV_ASSUME(depth0 >= 0 && depth0 <= 2);
    gh_lock_depth = depth0; gh_lock_acquired = 0; gh_lock_outer = 0;
#ifdef QV_C13
    QV_ASSUME(ts && depth0 == 0);
#endif
    s.t = t; s.depth0 = depth0;
    return s;
}

/* INV_h + equality with the ideal map */
static void check(struct hstate *s, const struct model *m) {
    qhashtbl_t *t = s->t;
    size_t cnt = 0, want = 0;
    bool seen[ALPHA];
    for (int i = 0; i < ALPHA; i++) { seen[i] = false; if (m->has[i]) want++; }
    QV_ASSERT(t->range == HR, "C05: range untouched");
    for (int j = 0; j < HR; j++) {
        qhashtbl_obj_t *o = t->slots[j];
        for (int step = 0; step < ALPHA + 2; step++) {
            if (o == NULL) break;
            QV_ASSERT(step <= ALPHA, "C05: INV chains are acyclic and hold only stored keys");
            QV_ASSERT(o->name != NULL && o->name[0] >= 'a' && o->name[0] < 'a' + ALPHA && o->name[1] == 0, "C05: INV every node carries a stored key");
            int k = o->name[0] - 'a';
            if (k < 0 || k >= ALPHA) return;
            QV_ASSERT(o->hash == gh_hash[k] && (int)(o->hash % HR) == j, "C05: INV node sits in the chain of its hash");
            QV_ASSERT(!seen[k], "C05: INV a key is stored at most once");
            seen[k] = true;
            QV_ASSERT(m->has[k], "C05: table holds no key the ideal map does not hold");
            QV_ASSERT(o->size == m->size[k], "C05: stored length is the length last put");
            for (int b = 0; b < VSZ; b++) if ((size_t)b < m->size[k]) QV_ASSERT(((uchar *)o->data)[b] == m->data[k][b], "C05,C12: stored bytes are the bytes last put");
            cnt++;
            o = o->next;
        }
    }
    for (int i = 0; i < ALPHA; i++) QV_ASSERT(seen[i] == m->has[i], "C05: every key of the ideal map is stored (operations on one key never affect another)");
    QV_ASSERT(t->num == want && cnt == want, "C05: size counts the distinct keys");
}
#ifdef QV_C13
#define LOCK_BALANCED(s) do { C13_SETTLE(); QV_ASSERT(gh_lock_depth == (s).depth0 && gh_lock_outer <= 1, "C13: all shared accesses of the operation lie in ONE critical section, which is released on return"); gh_lock_outer = 0; } while (0)
#else
#define LOCK_BALANCED(s) QV_ASSERT(gh_lock_depth == (s).depth0, "C14: lock depth on return equals depth on entry")
#endif

/* ------------------------------------------------------------ put / putstr */
void h_put(void) {
    struct hstate s = mk();
    qhashtbl_t *t = s.t;
    QV_IN(int, k);
    QV_ASSUME(k >= 0 && k < ALPHA);
    QV_IN(size_t, vs);
    QV_ASSUME(vs >= 1 && vs <= VSZ);
    QV_IN(bool, asstr);
    char *name = malloc(2); QV_ASSUME(name != NULL);
    name[0] = 'a' + k; name[1] = 0;
    uchar *val = malloc(VSZ); QV_ASSUME(val != NULL);
    QV_IN_BYTES(val, VSZ);
    if (asstr) { QV_ASSUME(vs == 2 && val[0] != 0); val[1] = 0; }
    uchar copy[VSZ]; for (int b = 0; b < VSZ; b++) copy[b] = val[b];
    C13_BEGIN(t);
    errno = 0;
    bool r = asstr ? qhashtbl_putstr(t, name, (char *)val) : qhashtbl_put(t, name, val, vs);
    LOCK_BALANCED(s);
    struct model m = s.m;
    if (!r) {
        QV_ASSERT(errno == ENOMEM, "C15: put fails only on allocation failure");
        check(&s, &m);                   /* failure leaves every key, including this one, unchanged */
        QV_REACH("put allocation failure");
    } else {
        /* caller's buffers are scribbled and released: the table must own private copies */
        name[0] = 'Z'; for (int b = 0; b < VSZ; b++) val[b] ^= 0x5a;
        m.has[k] = true; m.size[k] = vs; for (int b = 0; b < VSZ; b++) m.data[k][b] = copy[b];
        check(&s, &m);
        if (s.m.has[k]) QV_REACH("put replaced"); else QV_REACH("put inserted");
    }
    free(name); free(val);
    C13_END();
    QV_ASSERT(!qhashtbl_put(t, NULL, copy, 1) && !qhashtbl_put(t, "a", NULL, 1), "C05: NULL name/data are refused");
    QV_ASSERT(gh_lock_depth == s.depth0, "C14: refused calls leave the lock depth unchanged");
    C13_END(); qhashtbl_free(t);
    QV_END();
}

/* ------------------------------------------------------------ get / getstr / size / remove */
void h_get_remove(void) {
    struct hstate s = mk();
    qhashtbl_t *t = s.t;
    QV_IN(int, k);
    QV_ASSUME(k >= 0 && k < ALPHA);
    QV_IN(bool, newmem); QV_IN(bool, wantsize); QV_IN(bool, asstr);
    char name[2]; name[0] = 'a' + k; name[1] = 0;
    struct model m = s.m;
#ifndef QV_C13
    QV_ASSERT(qhashtbl_size(t) == HN, "C05: size reports the key count");
#endif
    size_t sz = 999;
    C13_BEGIN(t);
    errno = 0;
    uchar *p = asstr ? (uchar *)qhashtbl_getstr(t, name, newmem) : qhashtbl_get(t, name, wantsize ? &sz : NULL, newmem);
    LOCK_BALANCED(s);
    check(&s, &m);
    if (!m.has[k]) { QV_ASSERT(p == NULL && errno == ENOENT, "C05: get of an absent key reports ENOENT"); QV_REACH("get absent"); }
    else if (p == NULL) QV_ASSERT(newmem && errno == ENOMEM, "C15: get of a present key fails only when the copy cannot be allocated");
    else {
        QV_ASSERT(asstr || !wantsize || sz == m.size[k], "C05: get reports the length last put");
        for (int b = 0; b < VSZ; b++) if ((size_t)b < m.size[k]) QV_ASSERT(p[b] == m.data[k][b], "C05,C12: get returns the bytes last put under that key");
#ifndef QV_NATIVE
        if (newmem) QV_ASSERT(QV_OBJECT_SIZE(p) == m.size[k] && QV_POINTER_OFFSET(p) == 0, "C12: copy is a fresh exactly-sized object");
#endif
        if (newmem) free(p);
        QV_REACH("get present");
    }
    C13_BEGIN(t);
    errno = 0;
    bool r = qhashtbl_remove(t, name);
    LOCK_BALANCED(s);
    QV_ASSERT(r == m.has[k] && (r || errno == ENOENT), "C05: remove succeeds exactly for present keys");
    m.has[k] = false;
    check(&s, &m);                       /* unlinks only that key */
#ifndef QV_C13
    QV_ASSERT(!qhashtbl_remove(t, name) && qhashtbl_get(t, name, NULL, false) == NULL, "C05: a removed key is gone");
    LOCK_BALANCED(s);
#endif
    C13_END(); qhashtbl_free(t);                    /* leak obligation: removal freed node, name and data */
    QV_END();
}

/* ------------------------------------------------------------ getnext walk, clear */
void h_walk_clear(void) {
    struct hstate s = mk();
    qhashtbl_t *t = s.t;
    struct model m = s.m;
    QV_IN(bool, newmem);
    qhashtbl_obj_t cur; memset(&cur, 0, sizeof cur);
    bool visited[ALPHA]; for (int i = 0; i < ALPHA; i++) visited[i] = false;
    for (int i = 0; i < HN; i++) {
        bool r = qhashtbl_getnext(t, &cur, newmem);
        LOCK_BALANCED(s);
        if (!r) { QV_ASSERT(newmem && errno == ENOMEM, "C15: walk step fails only on allocation failure"); goto out; }
        int k = cur.name[0] - 'a';
        QV_ASSERT(k >= 0 && k < ALPHA && m.has[k] && !visited[k], "C05: walk returns each stored key exactly once");
        if (k < 0 || k >= ALPHA) goto out;
        visited[k] = true;
        QV_ASSERT(cur.size == m.size[k], "C05: walk returns the value length");
        for (int b = 0; b < VSZ; b++) if ((size_t)b < m.size[k]) QV_ASSERT(((uchar *)cur.data)[b] == m.data[k][b], "C05: walk returns the value bytes");
        if (newmem) { free(cur.name); free(cur.data); }
    }
    errno = 0;
    QV_ASSERT(!qhashtbl_getnext(t, &cur, newmem) && errno == ENOENT, "C05: walk reports the end after the last key");
    LOCK_BALANCED(s);
    check(&s, &m);
    qhashtbl_clear(t);
    LOCK_BALANCED(s);
    for (int i = 0; i < ALPHA; i++) m.has[i] = false;
    check(&s, &m);
    QV_REACH("walk and clear done");
out:
    C13_END(); qhashtbl_free(t);
    QV_END();
}

/* ------------------------------------------------------------ constructor / free */
void h_ctor(void) {
    QV_IN(bool, ts);
    gh_lock_depth = 0;
    qhashtbl_t *t = qhashtbl(HR, ts ? QHASHTBL_THREADSAFE : 0);
    if (t == NULL) { QV_ASSERT(errno == ENOMEM, "C15: constructor reports ENOMEM"); QV_REACH("ctor failed"); }
    else {
        QV_ASSERT(t->num == 0 && t->range == HR && ts == (t->qmutex != NULL), "C05: new table is empty with the requested range");
        for (int j = 0; j < HR; j++) QV_ASSERT(t->slots[j] == NULL, "C05: new table has empty chains");
        qhashtbl_free(t);
    }
    QV_ASSERT(gh_lock_depth == 0, "C14: constructor/free leave no lock held");
    QV_END();
}
