/*
 * qv_pthread.h - assumed contract of the pthread calls used by Q_MUTEX_* (proof/witness mode).
 * The ghost counter gh_lock_depth is the depth of the container mutex (C14).  trylock is modelled
 * as succeeding (mutual exclusion and eventual acquisition of a POSIX recursive mutex are assumed);
 * the forced-unlock branch of Q_MUTEX_ENTER is therefore unreachable in the model (stated in
 * DESIGN.md).  Hooks QV_ON_ACQUIRE / QV_ON_RELEASE let a harness implement the C13 reduction
 * (havoc shared state when the lock is first taken, poison it when it is finally released).
 */
#ifndef QV_PTHREAD_H
#define QV_PTHREAD_H
#include <pthread.h>
#include <unistd.h>
int gh_lock_depth;      /* current depth */
int gh_lock_acquired;   /* number of successful trylocks */
int gh_lock_outer;      /* number of critical sections opened (depth 0 -> 1 transitions) */
#ifndef QV_NATIVE
void qv_on_acquire(void);
void qv_on_release(void);
int pthread_mutex_trylock(pthread_mutex_t *m) {
    __CPROVER_assert(__CPROVER_w_ok(m, sizeof(*m)), "C11: trylock on a live mutex object");
    gh_lock_depth++;
    gh_lock_acquired++;
    if (gh_lock_depth == 1) gh_lock_outer++;
#ifdef QV_LOCK_HOOKS
    if (gh_lock_depth == 1) qv_on_acquire();
#endif
    return 0;
}
int pthread_mutex_unlock(pthread_mutex_t *m) {
    __CPROVER_assert(__CPROVER_w_ok(m, sizeof(*m)), "C11: unlock on a live mutex object");
    __CPROVER_assert(gh_lock_depth > 0, "C14: unlock only while the lock is held");
#ifdef QV_LOCK_HOOKS
    if (gh_lock_depth == 1) qv_on_release();
#endif
    gh_lock_depth--;
    return 0;
}
int pthread_mutex_init(pthread_mutex_t *m, const pthread_mutexattr_t *a) { return 0; }
int pthread_mutex_destroy(pthread_mutex_t *m) { return 0; }
int pthread_mutexattr_init(pthread_mutexattr_t *a) { return 0; }
int pthread_mutexattr_settype(pthread_mutexattr_t *a, int t) { return 0; }
int pthread_mutexattr_destroy(pthread_mutexattr_t *a) { return 0; }
pthread_t pthread_self(void) { return (pthread_t)1; }
int pthread_equal(pthread_t a, pthread_t b) { return a == b; }
int usleep(useconds_t u) { return 0; }
#else
/* native replay: count through thin wrappers around the real calls */
static int qv_trylock(pthread_mutex_t *m) { int r = pthread_mutex_trylock(m); if (r == 0) { gh_lock_depth++; gh_lock_acquired++; } return r; }
static int qv_unlock(pthread_mutex_t *m) { gh_lock_depth--; return pthread_mutex_unlock(m); }
#define pthread_mutex_trylock qv_trylock
#define pthread_mutex_unlock qv_unlock
#endif
#endif
