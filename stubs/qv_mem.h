/*
 * qv_mem.h - assumed contracts for memcpy / memmove / realloc (proof mode only).
 *
 * CBMC's library models copy symbolic-length regions byte by byte and do not converge on heap
 * objects of symbolic size (DESIGN.md, C10).  The stubs below state the contract instead:
 *   obligations (checked at every call site): source readable, destination writable for n bytes,
 *       and for memcpy: the regions do not overlap;
 *   effect (assumed): the destination region gets arbitrary content, except that the bytes at the
 *       ghost offsets gh_off and gh_off2 (chosen arbitrarily by the harness) are copied exactly.
 * The real functions copy every byte, so anything proved for arbitrary ghost offsets holds for all.
 * In witness/native mode the library / libc versions are used.
 */
#ifndef QV_MEM_H
#define QV_MEM_H
#if !defined(QV_NATIVE) && !defined(QV_WITNESS)
size_t gh_off, gh_off2;     /* ghost byte offsets inside a copied region */
size_t gh_roff, gh_roff2;   /* ghost byte offsets inside a reallocated object */

void *qv_memcpy(void *dst, const void *src, size_t n) {
    if (n > 0) {
        __CPROVER_assert(__CPROVER_r_ok(src, n), "C11: memcpy source region is readable for n bytes");
        __CPROVER_assert(__CPROVER_w_ok(dst, n), "C11: memcpy destination region is writable for n bytes");
        __CPROVER_assert(!__CPROVER_same_object(dst, src) ||
                         __CPROVER_POINTER_OFFSET(dst) + n <= __CPROVER_POINTER_OFFSET(src) ||
                         __CPROVER_POINTER_OFFSET(src) + n <= __CPROVER_POINTER_OFFSET(dst),
                         "C11: memcpy regions do not overlap");
        unsigned char k1 = gh_off < n ? ((const unsigned char *)src)[gh_off] : 0;
        unsigned char k2 = gh_off2 < n ? ((const unsigned char *)src)[gh_off2] : 0;
        __CPROVER_havoc_slice(dst, n);
        if (gh_off < n) ((unsigned char *)dst)[gh_off] = k1;
        if (gh_off2 < n) ((unsigned char *)dst)[gh_off2] = k2;
    }
    return dst;
}

void *qv_memmove(void *dst, const void *src, size_t n) {
    if (n > 0) {
        __CPROVER_assert(__CPROVER_r_ok(src, n), "C11: memmove source region is readable for n bytes");
        __CPROVER_assert(__CPROVER_w_ok(dst, n), "C11: memmove destination region is writable for n bytes");
        unsigned char k1 = gh_off < n ? ((const unsigned char *)src)[gh_off] : 0;
        unsigned char k2 = gh_off2 < n ? ((const unsigned char *)src)[gh_off2] : 0;
        __CPROVER_havoc_slice(dst, n);
        if (gh_off < n) ((unsigned char *)dst)[gh_off] = k1;
        if (gh_off2 < n) ((unsigned char *)dst)[gh_off2] = k2;
    }
    return dst;
}

/* realloc: POSIX/glibc behaviour - failure leaves the old block untouched; success returns a
 * fresh block whose first min(old,new) bytes equal the old ones (stated for the ghost offsets) */
void *qv_realloc(void *p, size_t n) {
    if (p != NULL) {
        __CPROVER_assert(__CPROVER_POINTER_OFFSET(p) == 0 && __CPROVER_r_ok(p, 1), "C11: realloc of a live heap block");
    }
    if (n == 0) { free(p); return NULL; }
    void *q = malloc(n);
    if (q == NULL) return NULL;
    if (p != NULL) {
        size_t old = __CPROVER_OBJECT_SIZE(p);
        size_t m = old < n ? old : n;
        if (gh_roff < m) ((unsigned char *)q)[gh_roff] = ((unsigned char *)p)[gh_roff];
        if (gh_roff2 < m) ((unsigned char *)q)[gh_roff2] = ((unsigned char *)p)[gh_roff2];
        free(p);
    }
    return q;
}
#define memcpy qv_memcpy
#define memmove qv_memmove
#define realloc qv_realloc
#else
static size_t gh_off, gh_off2, gh_roff, gh_roff2;
#endif
#endif
