#!/usr/bin/env python3
"""
qvlib - runner for the contract checks (see DESIGN.md section 2).

pipeline per obligation group:
   weave (loop contracts / ghost statements / self-call redirection, scratch copy)
   -> goto-cc (C, gnu99, the project's include paths)
   -> goto-instrument (function-pointer restrictions derived from the constructors,
                       loop contracts or DFCC function contracts)
   -> cbmc --json-ui  (back end chosen per group)
   -> classify every obligation (discharged / failed / canary) and attribute it to properties
"""
import hashlib
import json
import os
import re
import shutil
import subprocess
import sys
import tempfile
import time
from concurrent.futures import ThreadPoolExecutor

ROOT = os.path.dirname(os.path.dirname(os.path.abspath(__file__)))
REPO = os.environ.get('QV_REPO', '/repo')
sys.path.insert(0, os.path.join(ROOT, 'weave'))
sys.path.insert(0, ROOT)
import weaver  # noqa: E402

CACHE_DIR = os.path.join(ROOT, '.cache')
# runs against a scratch copy of the repository (QV_REPO=...) never touch the registered evidence/replay files
OUT_ROOT = ROOT if REPO == '/repo' else os.path.join(tempfile.gettempdir(), 'qv_alt_out')
JOBS = int(os.environ.get('QV_JOBS', '16'))
import threading


class _Slots:
    """JOBS slots; a group of weight w (memory-hungry query) takes w of them ATOMICALLY (taking them one by one deadlocks)"""
    def __init__(self, n):
        self.free = n
        self.cv = threading.Condition()

    def acquire(self, w):
        with self.cv:
            while self.free < w:
                self.cv.wait()
            self.free -= w

    def release(self, w):
        with self.cv:
            self.free += w
            self.cv.notify_all()


_SLOTS = _Slots(JOBS)

STD_INCLUDES = ['-I' + os.path.join(ROOT, 'include'), '-I' + os.path.join(ROOT, 'harness'),
                '-I' + os.path.join(ROOT, 'contracts'), '-I' + os.path.join(ROOT, 'stubs')]


def repo_includes(repo):
    return ['-I' + repo, '-I' + os.path.join(repo, 'src/internal'), '-I' + os.path.join(repo, 'include/qlibc'),
            '-I' + os.path.join(repo, 'include'), '-I' + os.path.join(repo, 'src/utilities'),
            '-I' + os.path.join(repo, 'src/containers'), '-I' + os.path.join(repo, 'src/extensions')]


class Undecided(Exception):
    pass


def run(cmd, timeout=None, mem_mb=None, cwd=None, env=None):
    """run a command under timeout and address-space limit; returns (rc, stdout, stderr, seconds)"""
    pre = ''
    if mem_mb:
        pre = 'ulimit -v %d; ' % (mem_mb * 1024)
    t0 = time.time()
    sh = pre + 'exec ' + ' '.join(shquote(c) for c in cmd)
    # own process group: a timeout must also kill the solver child processes cbmc spawns (z3, cvc5, kissat)
    p = subprocess.Popen(['bash', '-c', sh], stdout=subprocess.PIPE, stderr=subprocess.PIPE, cwd=cwd, env=env,
                         start_new_session=True)
    try:
        out, err = p.communicate(timeout=timeout)
        return p.returncode, out.decode('utf-8', 'replace'), err.decode('utf-8', 'replace'), time.time() - t0
    except subprocess.TimeoutExpired:
        try:
            os.killpg(p.pid, 9)
        except Exception:
            pass
        try:
            out, err = p.communicate(timeout=10)
        except Exception:
            out, err = b'', b''
        return 124, (out or b'').decode('utf-8', 'replace'), (err or b'').decode('utf-8', 'replace'), time.time() - t0


def shquote(s):
    if re.match(r'^[A-Za-z0-9_./=:,+@%-]+$', s):
        return s
    return "'" + s.replace("'", "'\\''") + "'"


# ------------------------------------------------------------------ registry

def load_groups():
    import importlib
    groups = []
    gdir = os.path.join(ROOT, 'groups')
    for fn in sorted(os.listdir(gdir)):
        if fn.endswith('.py') and not fn.startswith('_'):
            mod = importlib.import_module('groups.' + fn[:-3])
            for g in mod.GROUPS:
                groups.extend(expand(g))
    names = [g['name'] for g in groups]
    assert len(set(names)) == len(names), 'duplicate group names'
    return groups


def expand(g):
    """expand 'instances' (list of dicts of defines) into separate groups"""
    g = dict(g)
    g.setdefault('tier', 'quick')
    g.setdefault('mode', 'contracts')
    g.setdefault('solver', os.environ.get('QV_SOLVER', 'cadical'))
    g.setdefault('timeout', 600)
    g.setdefault('mem', 12000)
    g.setdefault('strength', 'proof')
    g.setdefault('defines', [])
    g.setdefault('weave', {})
    g.setdefault('fp', False)
    g.setdefault('flags', [])
    g.setdefault('functions', [])
    g.setdefault('replay', True)
    inst = g.pop('instances', None)
    if not inst:
        return [g]
    out = []
    for i in inst:
        h = dict(g)
        h['name'] = g['name'] + '@' + ','.join('%s=%s' % kv for kv in sorted(i.items()) if kv[0] not in ('tier', 'timeout', 'solver', 'unwind', 'unwindset', 'weight') and not kv[0].startswith('_'))
        h['defines'] = list(g['defines']) + ['-D%s=%s' % (kv[0].lstrip('_'), kv[1]) for kv in i.items() if kv[0] not in ('tier', 'timeout', 'solver', 'unwind', 'unwindset', 'weight')]
        for k in ('tier', 'timeout', 'solver', 'unwind', 'unwindset', 'weight'):
            if k in i:
                h[k] = i[k]
        out.append(h)
    return out


# ------------------------------------------------------------------ build steps

def weave_units(g, scratch, repo):
    wdir = os.path.join(scratch, 'woven')
    total = 0
    for unit, spec in g['weave'].items():
        if isinstance(spec, str):
            spec = {'rules': spec}
        rules = json.load(open(os.path.join(ROOT, spec['rules'])))
        if 'funcs' in spec:
            rules = [r for r in rules if r['func'] in spec['funcs']]
        if 'tags' in spec:
            rules = [r for r in rules if r.get('tag', 'default') in spec['tags']]
        else:
            rules = [r for r in rules if r.get('tag', 'default') == 'default']
        src = open(os.path.join(repo, unit)).read()
        try:
            out, n = weaver.weave(src, rules)
        except weaver.WeaveError as e:
            raise Undecided('weave rule did not fire in %s: %s' % (unit, e))
        dst = os.path.join(wdir, unit)
        os.makedirs(os.path.dirname(dst), exist_ok=True)
        open(dst, 'w').write(out)
        total += n
    return wdir, total


def fp_restrictions(g, scratch, gb):
    """derive function-pointer restrictions from the real constructors: every call through a
    method slot `.NAME` is restricted to the function the constructor stores into `.NAME`."""
    empty = os.path.join(scratch, 'fp0.json')
    open(empty, 'w').write('{}')
    lab = os.path.join(scratch, 'lab.gb')
    rc, out, err, _ = run(['goto-instrument', '--function-pointer-restrictions-file', empty, gb, lab], timeout=300)
    if rc != 0:
        raise Undecided('goto-instrument (label fp calls) failed: ' + err[-500:])
    rc, out, err, _ = run(['goto-instrument', '--show-goto-functions', lab], timeout=300)
    slots = {}
    for m in re.finditer(r'ASSIGN \*?\(?\*?[\w:$]+\)?\.(\w+) := address_of\((\w+)\)', out):
        slots.setdefault(m.group(1), set()).add(m.group(2))
    restr = {}
    for m in re.finditer(r'ASSIGN ([\w$]+\.function_pointer_call\.\d+) := (.*)', out):
        label, rhs = m.group(1), m.group(2).strip()
        sm = re.search(r'\.(\w+)\s*$', rhs)
        slot = sm.group(1) if sm else None
        extra = g.get('fp_extra', {})
        if label in extra:
            restr[label] = extra[label]
        elif slot in extra:
            restr[label] = extra[slot]
        elif slot in slots and len(slots[slot]) == 1:
            restr[label] = sorted(slots[slot])
        elif slot in slots:
            # the same slot name exists in several containers (size/clear/free/...): choose by container family:
            # a call through `<x>->list-><slot>` targets the qlist method, otherwise the family of the enclosing function
            cands = sorted(slots[slot])
            fam = 'qlist' if re.search(r'\.list\)?\.\w+\s*$', rhs) else label.split('.')[0].split('_')[0]
            pick = [c for c in cands if c.startswith(fam + '_')]
            restr[label] = pick if len(pick) == 1 else cands
        else:
            sm2 = re.search(r'(\w+)\s*$', rhs)
            nm = sm2.group(1) if sm2 else None
            if nm in extra:
                restr[label] = extra[nm]
    fpj = os.path.join(scratch, 'fp.json')
    json.dump(restr, open(fpj, 'w'), indent=1)
    out_gb = os.path.join(scratch, 'fp.gb')
    rc, out, err, _ = run(['goto-instrument', '--function-pointer-restrictions-file', fpj,
                           '--remove-function-pointers', gb, out_gb], timeout=300)
    if rc != 0:
        raise Undecided('goto-instrument (fp restrictions) failed: ' + (out + err)[-800:])
    return out_gb, restr


SOLVER_FLAGS = {
    'minisat': [],
    'cadical': ['--sat-solver', 'cadical'],
    'kissat': ['--external-sat-solver', 'kissat'],
    'z3': ['--z3'],
    'cvc5': ['--cvc5'],
}


def cc_flags(g, mode, wdir, repo):
    fl = ['-std=gnu99', '-DQV_GROUP_' + re.sub(r'\W', '_', g['name'])] + list(g['defines'])
    if mode == 'witness':
        fl.append('-DQV_WITNESS')
    fl += STD_INCLUDES
    if wdir and mode == 'proof':
        fl.append('-I' + wdir)
        for unit in g['weave']:
            # a woven copy lives elsewhere: keep its original directory on the search path for its own "..." includes
            fl.append('-iquote' + os.path.dirname(os.path.join(repo, unit)))
    fl += repo_includes(repo)
    return fl


def build_goto(g, scratch, repo, mode='proof'):
    wdir = None
    nweave = 0
    if mode == 'proof' and g['weave']:
        wdir, nweave = weave_units(g, scratch, repo)
    harness = os.path.join(ROOT, 'harness', g['harness'])
    gb = os.path.join(scratch, 'a.gb')
    cmd = ['goto-cc'] + cc_flags(g, mode, wdir, repo) + ['--function', g['entry'], harness, '-o', gb]
    rc, out, err, _ = run(cmd, timeout=300)
    if rc != 0:
        raise Undecided('goto-cc failed: ' + (out + err)[-1500:])
    # content key for the cache: preprocessed text
    rc2, pp, err2, _ = run(['gcc', '-E', '-P'] + [f for f in cc_flags(g, mode, wdir, repo)] + [harness], timeout=120)
    # the woven copy lives in a per-run scratch directory: __FILE__ inside the real sources would otherwise put that random
    # path into the key and defeat the cache for every woven unit
    key_src = pp.replace(scratch, '<scratch>') if rc2 == 0 else open(harness).read() + str(time.time())
    restr = {}
    if g['fp']:
        gb, restr = fp_restrictions(g, scratch, gb)
    log = ''
    gmode = g['mode'] if mode == 'proof' else 'unwind'
    if gmode == 'contracts':
        out_gb = os.path.join(scratch, 'c.gb')
        cmd = ['goto-instrument', '--apply-loop-contracts'] + g.get('gi_flags', []) + [gb, out_gb]
        rc, out, err, _ = run(cmd, timeout=600)
        log = out + err
        if rc != 0:
            raise Undecided('goto-instrument --apply-loop-contracts failed: ' + log[-1500:])
        gb = out_gb
    elif gmode == 'dfcc':
        out_gb = os.path.join(scratch, 'c.gb')
        cmd = ['goto-instrument', '--dfcc', g['entry']]
        for f in g.get('enforce', []):
            cmd += ['--enforce-contract', f]
        for f in g.get('replace', []):
            cmd += ['--replace-call-with-contract', f]
        cmd += ['--apply-loop-contracts'] + g.get('gi_flags', []) + [gb, out_gb]
        rc, out, err, _ = run(cmd, timeout=900)
        log = out + err
        if rc != 0:
            raise Undecided('goto-instrument --dfcc failed: ' + log[-1500:])
        gb = out_gb
    return gb, key_src, nweave, restr, log


def cbmc_cmd(g, gb, mode='proof'):
    cmd = ['cbmc', gb, '--json-ui', '--drop-unused-functions', '--object-bits', str(g.get('object_bits', 10))]
    gmode = g['mode'] if mode == 'proof' else 'unwind'
    if mode == 'witness':
        cmd += ['--unwind', str(g.get('witness_unwind', 10)), '--no-unwinding-assertions', '--trace']
    else:
        if 'unwind' in g:
            cmd += ['--unwind', str(g['unwind'])]
        if 'unwindset' in g:
            cmd += ['--unwindset', g['unwindset']]
    cmd += g['flags']
    cmd += SOLVER_FLAGS[g['solver'] if mode == 'proof' else g.get('witness_solver', 'minisat')]
    return cmd


TAG_RE = re.compile(r'^\[?((?:C\d\d)(?:,\s*C\d\d)*)\]?:\s*')


def parse_results(stdout):
    try:
        js = json.loads(stdout)
    except Exception:
        # truncated output (timeout): try to salvage
        return None, []
    results = None
    msgs = []
    for item in js:
        if isinstance(item, dict):
            if 'result' in item:
                results = item['result']
            if 'messageText' in item:
                msgs.append((item.get('messageType', ''), item['messageText']))
    return results, msgs


def classify(g, results):
    obs = []
    for r in results:
        desc = r.get('description', '')
        pid = r.get('property', '')
        status = r.get('status', '')
        loc = r.get('sourceLocation', {}) or {}
        m = TAG_RE.match(desc)
        props = [p.strip() for p in m.group(1).split(',')] if m else list(g['props'])
        canary = desc.startswith('CANARY:')
        o = {'id': pid, 'desc': desc, 'status': status, 'props': props, 'canary': canary,
             'function': loc.get('function', ''), 'file': loc.get('file', ''), 'line': loc.get('line', '')}
        if 'trace' in r:
            o['trace'] = r['trace']
        obs.append(o)
    return obs


def run_group(g, repo=REPO, use_cache=True):
    """returns dict(name, status in {ok, failed, undecided}, obligations[], seconds, ...)"""
    w = max(1, min(JOBS, int(g.get('weight', 1))))
    _SLOTS.acquire(w)
    try:
        return _run_group(g, repo, use_cache)
    finally:
        _SLOTS.release(w)


def _run_group(g, repo=REPO, use_cache=True):
    t0 = time.time()
    scratch = tempfile.mkdtemp(prefix='qv_')
    res = {'name': g['name'], 'group': g, 'status': 'undecided', 'obligations': [], 'reason': '', 'cached': False}
    try:
        gb, key_src, nweave, restr, ilog = build_goto(g, scratch, repo)
        cmd = cbmc_cmd(g, gb)
        key = hashlib.sha256((key_src + '\0' + g['name'] + '\0' + g['entry'] + '\0' + ' '.join(sorted(g['defines'])) + '\0' + ' '.join(cmd[2:]) + '\0' + g['mode'] + json.dumps(g.get('enforce', [])) +
                              json.dumps(g.get('replace', [])) + json.dumps(restr, sort_keys=True) +
                              subprocess.run(['cbmc', '--version'], stdout=subprocess.PIPE).stdout.decode()).encode()).hexdigest()
        cfile = os.path.join(CACHE_DIR, key + '.json')
        res['woven_edits'] = nweave
        res['fp_restrictions'] = len(restr)
        res['cmd'] = ' '.join(cmd).replace(scratch, '<scratch>')
        if use_cache and os.environ.get('QV_NOCACHE') != '1' and os.path.exists(cfile):
            try:
                c = json.load(open(cfile))
            except Exception:
                c = None
            if c:
                res.update(c)
                res['cached'] = True
                res['group'] = g
                return res
        rc, out, err, secs = run(cmd, timeout=g['timeout'], mem_mb=g['mem'])
        res['solver_s'] = round(secs, 2)
        if rc == 124:
            raise Undecided('cbmc timed out after %ds' % g['timeout'])
        results, msgs = parse_results(out)
        if results is None:
            tail = ' | '.join(t for (k, t) in msgs if k in ('ERROR', 'WARNING'))[-1200:] if msgs else (out[-600:] + err[-600:])
            raise Undecided('cbmc gave no result (rc=%d): %s' % (rc, tail))
        alltext = ' '.join(t for (_, t) in msgs)
        if 'ignoring forall' in alltext or 'ignoring exists' in alltext:
            raise Undecided('back end ignored a quantifier')
        for (k, t) in msgs:
            mm = re.search(r'no body for (?:function|callee) (\w+)', t)
            if mm and mm.group(1) in g['functions']:
                raise Undecided('no body for function under contract: ' + mm.group(1))
        obs = classify(g, results)
        res['obligations'] = obs
        if not obs:
            raise Undecided('zero obligations generated')
        if g['mode'] in ('contracts', 'dfcc') and g['weave']:
            if not any('loop invariant' in o['desc'].lower() or 'loop_invariant' in o['id'] for o in obs):
                raise Undecided('loop contracts were woven but no loop-invariant obligation was generated')
        canaries = [o for o in obs if o['canary']]
        # the end-of-harness canary must fire in every instance; the others must fire in at least one
        # instance of the group family (checked by family_vacuity over all instances that were run)
        dead = [o for o in canaries if o['status'] != 'FAILURE' and 'harness end reachable' in o['desc']]
        if g.get('require_canary', True) and not any('harness end reachable' in o['desc'] for o in canaries):
            raise Undecided('harness has no end-of-harness reachability canary')
        if dead:
            raise Undecided('vacuous: canary not reachable: ' + '; '.join(o['desc'] for o in dead))
        bad = [o for o in obs if not o['canary'] and o['status'] == 'FAILURE']
        # UNKNOWN: cbmc marks obligations reachable from a failed *fatal* assertion (undefined behaviour) as
        # unknown; they are neither discharged nor reported as failed themselves
        unk = [o for o in obs if not o['canary'] and o['status'] not in ('SUCCESS', 'FAILURE')]
        res['status'] = 'failed' if bad else ('ok' if not unk else 'undecided')
        if unk and not bad:
            res['reason'] = '%d obligations UNKNOWN without a failed one' % len(unk)
        if res['status'] == 'ok':
            os.makedirs(CACHE_DIR, exist_ok=True)
            slim = {k: res[k] for k in ('status', 'obligations', 'solver_s', 'woven_edits', 'fp_restrictions', 'cmd')}
            tmpf = cfile + '.%d.tmp' % os.getpid() + str(time.time())
            json.dump(slim, open(tmpf, 'w'))
            os.replace(tmpf, cfile)
    except Undecided as e:
        res['status'] = 'undecided'
        res['reason'] = str(e)
    finally:
        res['wall_s'] = round(time.time() - t0, 2)
        if os.environ.get("QV_KEEP") != "1": shutil.rmtree(scratch, ignore_errors=True)
        else: print("KEPT", scratch)
    return res


def family_vacuity(results):
    """canaries (other than the end-of-harness one) must be reachable in at least one instance of their family"""
    fam = {}
    for r in results:
        if r['status'] == 'undecided' and not r['obligations']:
            continue
        base = r['name'].split('@')[0]
        for o in r['obligations']:
            if o['canary']:
                k = (base, o['desc'])
                fam[k] = fam.get(k, False) or o['status'] == 'FAILURE'
    return [k for k, fired in fam.items() if not fired]


# ------------------------------------------------------------------ witness + native replay

def extract_inputs(trace, entry, harness=''):
    """take the harness's named inputs (QV_IN / QV_IN_BYTES) from a cbmc json trace"""
    wit = {}
    cur_i = 0
    for st in trace:
        if st.get('stepType') != 'assignment':
            continue
        loc = st.get('sourceLocation', {}) or {}
        if loc.get('function') != entry and not (harness and (loc.get('file') or '').endswith(harness)):
            continue
        lhs = st.get('lhs', '')
        val = st.get('value', {})
        if 'data' not in val:
            continue
        d = val['data']
        if lhs.startswith('return_value') or '$tmp' in lhs or lhs.startswith('dynamic_object') or lhs == 'malloc_size':
            continue
        if lhs == 'qv_i' or lhs.startswith('qv_byte_'):
            try:
                v = int(re.sub(r'[uUlL]+$', '', str(d)))
            except Exception:
                continue
            if lhs == 'qv_i':
                cur_i = v
            else:
                wit['%s[%d]' % (lhs[len('qv_byte_'):], cur_i)] = v
            continue
        m = re.match(r'^([A-Za-z_]\w*)(\[(\d+)l?\])?$', lhs)
        if not m:
            continue
        try:
            if isinstance(d, str):
                if d in ('TRUE', 'true'):
                    v = 1
                elif d in ('FALSE', 'false'):
                    v = 0
                else:
                    v = int(re.sub(r'[uUlL]+$', '', d))
            else:
                v = int(d)
        except Exception:
            continue
        name = m.group(1) + ('[%s]' % m.group(3) if m.group(2) else '')
        if name not in wit or m.group(2):
            wit[name] = v
        else:
            wit[name] = v
    return wit


def native_units(g, repo):
    inc = set(g.get('units', []))
    src = []
    for d in ('src/containers', 'src/utilities', 'src/internal', 'src/internal/md5'):
        p = os.path.join(repo, d)
        if not os.path.isdir(p):
            continue
        for fn in sorted(os.listdir(p)):
            if fn.endswith('.c') and os.path.join(d, fn) not in inc:
                src.append(os.path.join(p, fn))
    return src


def native_build(g, scratch, repo):
    exe = os.path.join(scratch, 'replay')
    if os.path.exists(exe):
        return exe, ''
    cmd = ['clang', '-g', '-O1', '-fsanitize=address,undefined', '-fno-sanitize-recover=undefined', '-w', '-std=gnu99',
           '-DQV_NATIVE', '-DQV_ENTRY=' + g['entry'], '-DQV_WCAP=%d' % g.get('wcap', 6)] + list(g['defines']) + STD_INCLUDES + \
          repo_includes(repo) + [os.path.join(ROOT, 'harness', g['harness']), os.path.join(ROOT, 'replay', 'qv_native.c')] + \
          native_units(g, repo) + ['-lpthread', '-o', exe]
    rc, out, err, _ = run(cmd, timeout=300)
    if rc != 0:
        return None, (out + err)[-2000:]
    return exe, ''


def native_env(g):
    env = dict(os.environ)
    env['ASAN_OPTIONS'] = 'detect_leaks=%d:abort_on_error=0:allocator_may_return_null=1' % (1 if g.get('native_leaks') else 0)
    env['UBSAN_OPTIONS'] = 'print_stacktrace=1'
    return env


def witness_pairs(w):
    if isinstance(w, dict):
        return list(w.items())
    return [tuple(x) for x in w]


def native_replay(g, witness, scratch, repo):
    exe, log = native_build(g, scratch, repo)
    if not exe:
        return {'built': False, 'log': log}
    wfile = os.path.join(scratch, 'witness.txt')
    with open(wfile, 'w') as f:
        for k, v in witness_pairs(witness):
            f.write('%s=%d\n' % (k, v))
    rc, out, err, secs = run(['timeout', '-s', 'KILL', '10', exe, wfile], timeout=30, env=native_env(g))
    verdict = 'not-reproduced'
    if rc == 77:
        verdict = 'assumption-not-met'
    elif rc in (124, 137, -9):
        verdict = 'reproduced: no termination within 10 s watchdog'
    elif 'REPLAY-FAILED' in out:
        verdict = 'reproduced: postcondition violated natively'
    elif rc != 0:
        verdict = 'reproduced: sanitizer/abort (rc=%d)' % rc
    return {'built': True, 'rc': rc, 'verdict': verdict, 'stdout': out[-3000:], 'stderr': err[-3000:]}


def native_search(g, scratch, repo, trials, seed):
    """small-scope random search on the natively compiled harness (real code, ASan+UBSan)"""
    exe, log = native_build(g, scratch, repo)
    if not exe:
        return None, 'native build failed: ' + log[-600:]
    out_file = os.path.join(scratch, 'found.txt')
    rc, out, err, secs = run([exe, '--search', str(trials), str(seed), out_file], timeout=g.get('search_timeout', 120), env=native_env(g))
    if rc == 1 and os.path.exists(out_file):
        pairs = []
        for ln in open(out_file):
            k, _, v = ln.strip().rpartition('=')
            if k:
                pairs.append([k, int(v)])
        return pairs, out.strip()[-200:]
    return None, (out.strip() or 'search ended rc=%d' % rc)[-300:]


def witness_search(g, prop, failed_obs, repo=REPO):
    """after a failed obligation: obtain a concrete failing input for the real code and replay it natively.
       bounded groups (mode unwind): cbmc's own counterexample trace of the failed obligation;
       contract groups: loop-contract counterexamples are states of an abstracted loop, not inputs, so a
       small-scope random search on the natively compiled harness (same pre/postconditions) is used."""
    if not g.get('replay', True):
        return {'witness': None, 'note': 'no native counterpart for this harness (summarised / poisoned state)'}
    scratch = tempfile.mkdtemp(prefix='qvw_')
    try:
        best = None
        if g['mode'] == 'unwind':
            try:
                gb, _, _, _, _ = build_goto(g, scratch, repo, mode='proof')
                cmd = cbmc_cmd(g, gb) + ['--trace']
                for o in failed_obs[:1]:
                    cmd += ['--property', o['id']]
                rc, out, err, secs = run(cmd, timeout=g['timeout'], mem_mb=g['mem'])
                results, msgs = parse_results(out)
                obs = classify(g, results or [])
                fails = [o for o in obs if not o['canary'] and o['status'] == 'FAILURE' and 'trace' in o]
                for f in fails[:3]:
                    wit = extract_inputs(f['trace'], g['entry'], g['harness'])
                    rep = native_replay(g, wit, scratch, repo)
                    cand = {'source': 'cbmc counterexample trace', 'witness': witness_pairs(wit), 'witness_obligation': f['desc'], 'replay': rep}
                    if rep.get('verdict', '').startswith('reproduced'):
                        return cand
                    best = best or cand
            except Undecided as e:
                best = {'witness': None, 'note': 'trace run failed: ' + str(e)[:300]}
        pairs, note = native_search(g, scratch, repo, g.get('search_trials', 20000), int(os.environ.get('VERIF_SEED', '0') or 0))
        if pairs:
            rep = native_replay(g, pairs, scratch, repo)
            return {'source': 'small-scope random search on the native harness (sizes <= %d)' % g.get('wcap', 6),
                    'witness': pairs, 'replay': rep, 'note': note}
        return best or {'witness': None, 'note': 'no concrete failing input found: ' + note}
    finally:
        shutil.rmtree(scratch, ignore_errors=True)


# ------------------------------------------------------------------ known findings

def load_findings():
    path = os.path.join(ROOT, 'known_findings.txt')
    fs = []
    if os.path.exists(path):
        for ln in open(path):
            ln = ln.strip()
            m = re.match(r'^finding:\s+property=(C\d+)\s+obligation=(\S+)\s+(.*)$', ln)
            if m:
                grp, _, pat = m.group(2).partition(':')
                fs.append({'prop': m.group(1), 'group': grp, 'pattern': pat, 'text': m.group(3)})
    return fs


def finding_for(fs, prop, gname, o):
    for f in fs:
        if f['prop'] != prop:
            continue
        if not re.fullmatch(f['group'], gname):
            continue
        label = '%s|%s' % (o['function'], o['desc'])
        if re.search(f['pattern'], label):
            return f
    return None


# ------------------------------------------------------------------ check a property

def check_property(prop, tier, groups, propmeta, seed=0):
    t0 = time.time()
    sel = [g for g in groups if prop in g['props'] and (tier == 'thorough' or g['tier'] == 'quick')]
    if not sel:
        print('no obligation groups for %s' % prop)
        return 2
    with ThreadPoolExecutor(max_workers=JOBS) as ex:
        results = list(ex.map(run_group, sel))
    fs = load_findings()
    viol = []
    known = []
    undec = []
    n_ob = n_ok = 0
    per_group = []
    for r in results:
        g = r['group']
        mine = [o for o in r['obligations'] if prop in o['props'] and not o['canary']]
        canaries = [o for o in r['obligations'] if o['canary']]
        ok = [o for o in mine if o['status'] == 'SUCCESS']
        bad = [o for o in mine if o['status'] == 'FAILURE']
        if r['status'] == 'undecided':
            undec.append(r)
        kn = []
        vi = []
        for o in bad:
            f = finding_for(fs, prop, g['name'], o)
            if f:
                kn.append((o, f))
            else:
                vi.append(o)
        if vi:
            viol.append((r, vi))
        known.extend((r, o, f) for (o, f) in kn)
        n_ob += len(mine)
        n_ok += len(ok)
        per_group.append({
            'group': g['name'], 'entry': g['entry'], 'harness': g['harness'], 'strength': g['strength'],
            'bound': g.get('bound', 'none'), 'carrier': g['mode'], 'back_end': g['solver'],
            'functions_under_contract': g['functions'], 'status': r['status'], 'reason': r.get('reason', ''),
            'obligations': len(mine), 'discharged': len(ok), 'canaries_fired': len(canaries),
            'known_finding_obligations': len(kn),
            'solver_s': r.get('solver_s'), 'wall_s': r.get('wall_s'), 'cached': r.get('cached', False),
            'woven_edits': r.get('woven_edits', 0), 'fp_restrictions': r.get('fp_restrictions', 0),
            'cmd': r.get('cmd', ''),
        })
    # report
    rc = 0
    seen_f = set()
    for (r, o, f) in known:
        k = (f['group'], f['pattern'])
        if k in seen_f:
            continue
        seen_f.add(k)
        print('KNOWN-FINDING: property=%s %s [obligation %s: %s]' % (prop, f['text'], r['name'], o['desc']))
    replays = []
    LIMIT = int(os.environ.get('QV_WITNESS_LIMIT', '4'))

    def do_ws(item):
        (r, vi) = item
        try:
            return witness_search(r['group'], prop, vi)
        except Exception as e:  # replay is best effort, never masks the violation
            return {'witness': None, 'note': 'witness search crashed: %r' % e}
    def unw_only(item):
        (r, vi) = item
        return r['group']['mode'] == 'contracts' and all(o['desc'].startswith('unwinding assertion') for o in vi)
    # groups whose only failure is a loop without a contract are decided by the native search (6.9): search all of them (max 12)
    viol.sort(key=lambda it: 1 if unw_only(it) else 0)
    n_sem = len([it for it in viol if not unw_only(it)])
    nsearch = min(len(viol), min(n_sem, LIMIT) + min(len(viol) - n_sem, 12)) if n_sem <= LIMIT else LIMIT
    order = viol[:min(n_sem, LIMIT)] + viol[n_sem:n_sem + 12] if n_sem <= LIMIT else viol[:LIMIT]
    rest = [it for it in viol if it not in order]
    viol = order + rest
    with ThreadPoolExecutor(max_workers=4) as ex:
        wss = list(ex.map(do_ws, order))
    wss += [{'witness': None, 'note': 'witness search skipped: more than %d groups failed in this run' % LIMIT}] * len(rest)
    for (r, vi), ws in zip(viol, wss):
        g = r['group']
        rdir = os.path.join(OUT_ROOT, 'replays', prop)
        os.makedirs(rdir, exist_ok=True)
        path = os.path.join(rdir, re.sub(r'[^\w.@=-]', '_', g['name']) + '.json')
        rep = {
            'property': prop, 'group': g['name'], 'harness': g['harness'], 'entry': g['entry'],
            'failed_obligations': [{'id': o['id'], 'description': o['desc'], 'function': o['function'], 'file': o['file'],
                                    'line': o['line'], 'status': o['status']} for o in vi],
            'verifier_cmd': r.get('cmd', ''),
            'verifier_output': ['%s: %s [%s] %s:%s' % (o['status'], o['desc'], o['id'], o['file'], o['line']) for o in vi],
            'witness_search': ws,
            'replay_cmd': '%s/bin/qv replay %s' % (ROOT, path),
        }
        json.dump(rep, open(path, 'w'), indent=1)
        reproduced = bool(ws and ws.get('replay') and ws['replay'].get('verdict', '').startswith('reproduced'))
        if g['mode'] == 'contracts' and all(o['desc'].startswith('unwinding assertion') for o in vi) and not reproduced:
            # a loop WITHOUT a woven contract (e.g. a new loop in changed code): the obligation cannot be discharged, which is
            # "undecided", not "violated" - unless the native search on the real code found a failing input (then it is reported)
            print('UNDECIDED: property=%s group=%s loop without a loop contract (%s); bounded native search found no failing input' % (
                prop, r['name'], ', '.join('%s:%s' % (os.path.basename(o['file']), o['line']) for o in vi[:3])))
            if rc == 0:
                rc = 2
            continue
        for o in vi[:6]:
            print('  failed obligation [%s] %s (%s:%s in %s)' % (r['name'], o['desc'], os.path.basename(o['file']), o['line'], o['function']))
        print('VIOLATION property=%s replay=%s%s' % (prop, path, '' if reproduced else ' no-failing-input-found'))
        replays.append(path)
        rc = 1
    for r in undec:
        print('UNDECIDED: property=%s group=%s %s' % (prop, r['name'], r.get('reason', '')))
        if rc == 0:
            rc = 2
    for (base, desc) in family_vacuity(results):
        print('UNDECIDED: property=%s group-family=%s vacuous: canary never reachable in any instance: %s' % (prop, base, desc))
        if rc == 0:
            rc = 2
    wall = time.time() - t0
    write_evidence(prop, tier, seed, per_group, n_ob, n_ok, len(viol), known, propmeta, wall, results)
    print('%s tier=%s groups=%d obligations=%d discharged=%d known-finding-obligations=%d violations=%d undecided=%d wall=%.1fs' % (
        prop, tier, len(sel), n_ob, n_ok, len(known), len(viol), len(undec), wall))
    return rc


def write_evidence(prop, tier, seed, per_group, n_ob, n_ok, nviol, known, propmeta, wall, results):
    os.makedirs(os.path.join(OUT_ROOT, 'evidence'), exist_ok=True)
    pm = propmeta.get(prop, {})
    proved = [p['group'] for p in per_group if p['strength'] == 'proof' and p['status'] == 'ok']
    bounded = [{'group': p['group'], 'bound': p['bound']} for p in per_group if p['strength'] == 'bounded']
    samples = []
    for r in results:
        mine = [o for o in r['obligations'] if prop in o['props'] and not o['canary']]
        # a few named (non-generated) obligations first
        named = [o for o in mine if TAG_RE.match(o['desc'])] or mine
        for o in named[:3]:
            samples.append({'group': r['name'], 'obligation': o['id'], 'description': o['desc'], 'status': o['status'],
                            'location': '%s:%s' % (o['file'], o['line'])})
    fns = sorted(set(f for p in per_group for f in p['functions_under_contract']))
    backends = sorted(set(p['back_end'] for p in per_group))
    trusted = list(pm.get('trusted_base', []))
    ev = {
        'property_id': prop,
        'tier': tier,
        'seed': seed,
        'level': 'proof',
        'coverage': {
            'obligations': n_ob,
            'discharged': n_ok,
            'checker_cmd': 'cbmc 6.11.0 via %s/bin/qv check %s --tier %s (per-group commands under coverage.groups[].cmd)' % (ROOT, prop, tier),
            'trusted_base': trusted,
            'functions_under_contract': fns,
            'back_ends': backends,
            'solver_s_total': round(sum((p['solver_s'] or 0) for p in per_group), 1),
            'proved_unbounded': proved,
            'bounded_standin': bounded,
            'known_findings_reported': sorted(set(f['text'] for (_, _, f) in known)),
            'undecided_groups': [p['group'] for p in per_group if p['status'] == 'undecided'],
            'groups': per_group,
            'samples': samples[:40],
            'explanation': pm.get('text', '') + ' | unbounded proof groups in this run: %d, bounded stand-in groups: %d' % (len(proved), len(bounded)),
        },
        'assumptions': trusted + list(pm.get('unchecked', [])),
        'wall_s': round(wall, 2),
        'violations': nviol,
    }
    json.dump(ev, open(os.path.join(OUT_ROOT, 'evidence', prop + '.json'), 'w'), indent=1)


def replay_file(path):
    rep = json.load(open(path))
    groups = {g['name']: g for g in load_groups()}
    g = groups.get(rep['group'])
    print('property   :', rep['property'])
    print('group      :', rep['group'])
    for ln in rep['verifier_output']:
        print('obligation :', ln)
    ws = rep.get('witness_search') or {}
    if not g or not ws.get('witness'):
        print('no concrete witness recorded (%s); the failed obligations above are the finding' % ws.get('note', 'n/a'))
        return 1
    scratch = tempfile.mkdtemp(prefix='qvr_')
    try:
        r = native_replay(g, ws['witness'], scratch, REPO)
        print('witness    :', json.dumps(ws['witness']))
        print('native     :', r.get('verdict', r))
        print(r.get('stdout', ''))
        print(r.get('stderr', '')[-1500:])
        return 1 if r.get('verdict', '').startswith('reproduced') else 0
    finally:
        shutil.rmtree(scratch, ignore_errors=True)
