#!/usr/bin/env python3
"""
weaver.py - mechanical, insert-only/rename-only weaving of loop contracts, ghost
statements and self-call redirections into a scratch copy of a real source file.

Rules (JSON list), each rule is one of

  {"func": F, "loop": K, "insert": TEXT}
        insert TEXT (loop-contract clauses) after the header of the K-th loop
        (1-based, counted by position of the for/while/do keyword inside the body
        of function F; for a do-while loop the text goes after the closing
        parenthesis of the trailing while(...)).
  {"func": F, "after": LITERAL, "occurrence": N(optional, default 1), "insert": TEXT}
        insert a ghost statement after the N-th occurrence of LITERAL inside F.
        Every assignment in TEXT must target an identifier starting with gh_.
  {"func": F, "before": LITERAL, "occurrence": N, "insert": TEXT}   likewise, before.
  {"func": F, "rename_calls": OLD, "to": NEW}
        inside the body of F, the call tokens `OLD(` become `NEW(`.

Guarantees checked on every run:
  * each rule fires exactly once (otherwise WeaveError -> exit 2 / UNDECIDED);
  * undoing the edits reproduces the input byte for byte;
  * inserted ghost statements assign only gh_ identifiers.
Nothing is ever deleted from the real text.
"""
import json
import re
import sys


class WeaveError(Exception):
    pass


def blank_comments_and_strings(src):
    """Return a same-length copy of src where comments, string and char literals are
    replaced by spaces (newlines kept), so that structural scanning is not fooled."""
    out = list(src)
    i, n = 0, len(src)
    while i < n:
        c = src[i]
        if src.startswith('//', i):
            j = src.find('\n', i)
            j = n if j < 0 else j
            for k in range(i, j):
                out[k] = ' '
            i = j
        elif src.startswith('/*', i):
            j = src.find('*/', i + 2)
            j = n if j < 0 else j + 2
            for k in range(i, j):
                if out[k] != '\n':
                    out[k] = ' '
            i = j
        elif c == '"' or c == "'":
            q = c
            j = i + 1
            while j < n and src[j] != q:
                if src[j] == '\\':
                    j += 1
                j += 1
            for k in range(i + 1, min(j, n)):
                if out[k] != '\n':
                    out[k] = ' '
            i = j + 1
        else:
            i += 1
    return ''.join(out)


def match_paren(s, i, open_c='(', close_c=')'):
    assert s[i] == open_c, (s[i - 10:i + 10], i)
    depth = 0
    for j in range(i, len(s)):
        if s[j] == open_c:
            depth += 1
        elif s[j] == close_c:
            depth -= 1
            if depth == 0:
                return j
    raise WeaveError('unbalanced %s at offset %d' % (open_c, i))


def find_function(clean, name):
    """Return (body_open_brace, body_close_brace) of the definition of function `name`."""
    hits = []
    for m in re.finditer(r'\b%s\s*\(' % re.escape(name), clean):
        # must be at brace depth 0
        depth = clean.count('{', 0, m.start()) - clean.count('}', 0, m.start())
        if depth != 0:
            continue
        close = match_paren(clean, m.end() - 1)
        k = close + 1
        while k < len(clean) and clean[k].isspace():
            k += 1
        if k < len(clean) and clean[k] == '{':
            hits.append((k, match_paren(clean, k, '{', '}')))
    if len(hits) != 1:
        raise WeaveError('function %s: %d definitions found' % (name, len(hits)))
    return hits[0]


def loops_in(clean, lo, hi):
    """Positions at which loop-contract text has to be inserted for each loop in
    clean[lo:hi], ordered by position of the loop keyword."""
    res = []
    do_stack = []
    toks = list(re.finditer(r'\b(for|while|do)\b', clean[lo:hi]))
    # first pass: find do loops and their trailing while
    tail_whiles = set()
    for m in toks:
        if m.group(1) == 'do':
            p = lo + m.end()
            k = p
            while clean[k].isspace():
                k += 1
            if clean[k] == '{':
                endb = match_paren(clean, k, '{', '}')
                k2 = endb + 1
                while clean[k2].isspace():
                    k2 += 1
                if not clean.startswith('while', k2):
                    raise WeaveError('do without while')
                k3 = k2 + 5
                while clean[k3].isspace():
                    k3 += 1
                close = match_paren(clean, k3)
                tail_whiles.add(k2)
                res.append((lo + m.start(), close + 1))
            else:
                raise WeaveError('do loop with unbraced body not supported')
    for m in toks:
        kw = m.group(1)
        pos = lo + m.start()
        if kw == 'do' or pos in tail_whiles:
            continue
        k = lo + m.end()
        while clean[k].isspace():
            k += 1
        if clean[k] != '(':
            raise WeaveError('loop keyword without header at %d' % pos)
        close = match_paren(clean, k)
        res.append((pos, close + 1))
    res.sort()
    return [ins for (_, ins) in res]


GH_ASSIGN = re.compile(r'([A-Za-z_][A-Za-z0-9_]*(?:\s*\[[^\]]*\])?)\s*(?:[-+*/|&^]|<<|>>)?=(?!=)')


def check_ghost_only(text):
    body = blank_comments_and_strings(text)
    for m in GH_ASSIGN.finditer(body):
        lhs = m.group(1)
        # skip comparison operators like <=, >=, !=
        pre = body[m.end(1):m.end()]
        if re.match(r'\s*[<>!]=', body[m.end(1):m.end() + 1]):
            continue
        if not lhs.startswith('gh_'):
            raise WeaveError('ghost statement assigns non-ghost identifier %r in %r' % (lhs, text))


def weave(src, rules):
    clean = blank_comments_and_strings(src)
    edits = []      # (offset, text) insertions
    renames = []    # (offset, oldlen, new)
    for r in rules:
        lo, hi = find_function(clean, r['func'])
        if 'loop' in r:
            pts = loops_in(clean, lo, hi)
            k = r['loop']
            if not (1 <= k <= len(pts)):
                raise WeaveError('function %s has %d loops, rule wants loop %d' % (r['func'], len(pts), k))
            if 'expect' in r:
                # optional sanity anchor: the loop header must contain this literal
                hdr = src[max(lo, pts[k - 1] - 200):pts[k - 1]]
                if r['expect'] not in hdr:
                    raise WeaveError('function %s loop %d: header does not contain %r' % (r['func'], k, r['expect']))
            edits.append((pts[k - 1], '\n' + r['insert'] + '\n'))
        elif 'after' in r or 'before' in r:
            lit = r.get('after', r.get('before'))
            occ = r.get('occurrence', 1)
            idxs = [m.start() for m in re.finditer(re.escape(lit), src[lo:hi])]
            total = r.get('of', None)
            if total is not None and len(idxs) != total:
                raise WeaveError('function %s: literal %r occurs %d times, expected %d' % (r['func'], lit, len(idxs), total))
            if len(idxs) < occ:
                raise WeaveError('function %s: literal %r occurs %d times, rule wants #%d' % (r['func'], lit, len(idxs), occ))
            if total is None and len(idxs) != 1 and 'occurrence' not in r:
                raise WeaveError('function %s: literal %r is ambiguous (%d hits)' % (r['func'], lit, len(idxs)))
            p = lo + idxs[occ - 1]
            if 'after' in r:
                p += len(lit)
            if not r.get('contract', False):
                check_ghost_only(r['insert'])
            edits.append((p, ' ' + r['insert'] + ' '))
        elif 'rename_calls' in r:
            old, new = r['rename_calls'], r['to']
            hits = [m for m in re.finditer(r'\b%s\b(?=\s*\()' % re.escape(old), clean[lo:hi])]
            if not hits:
                raise WeaveError('function %s: no call to %s to rename' % (r['func'], old))
            if 'count' in r and len(hits) != r['count']:
                raise WeaveError('function %s: %d calls to %s, expected %d' % (r['func'], len(hits), old, r['count']))
            for m in hits:
                renames.append((lo + m.start(), len(old), new))
        else:
            raise WeaveError('unknown rule %r' % r)
    # apply from the back
    ops = [(o, 0, t) for (o, t) in edits] + renames
    ops.sort(key=lambda x: x[0], reverse=True)
    offs = [o for (o, _, _) in ops]
    if len(set(offs)) != len(offs):
        raise WeaveError('two rules hit the same offset')
    out = src
    for (o, l, t) in ops:
        out = out[:o] + t + out[o + l:]
    # reversibility check: undoing every edit must reproduce the input byte for byte
    undo = out
    for (o, l, t) in sorted(ops, key=lambda x: x[0], reverse=True):
        delta = sum(len(t2) - l2 for (o2, l2, t2) in ops if o2 < o)
        p = o + delta
        if undo[p:p + len(t)] != t:
            raise WeaveError('irreversible weave')
        undo = undo[:p] + src[o:o + l] + undo[p + len(t):]
    if undo != src:
        raise WeaveError('weave is not reversible')
    return out, len(ops)


def main():
    if len(sys.argv) != 4:
        print('usage: weaver.py <src.c> <rules.json> <out.c>', file=sys.stderr)
        sys.exit(2)
    src = open(sys.argv[1]).read()
    rules = json.load(open(sys.argv[2]))
    try:
        out, n = weave(src, rules)
    except WeaveError as e:
        print('UNDECIDED: weave rule did not fire: %s' % e, file=sys.stderr)
        sys.exit(2)
    open(sys.argv[3], 'w').write(out)
    print('woven %d edits' % n)


if __name__ == '__main__':
    main()
