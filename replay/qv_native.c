/* native replay support: witness table + main().  Built with -DQV_NATIVE -DQV_ENTRY=<harness entry>. */
#include <stdio.h>
#include <stdlib.h>
#include <string.h>

int qv_failed = 0;
static struct { char name[96]; long long v; } qv_tab[4096];
static int qv_n = 0;

long long qv_witness(const char *name, long long dflt) {
    for (int i = qv_n - 1; i >= 0; i--)
        if (!strcmp(qv_tab[i].name, name)) return qv_tab[i].v;
    return dflt;
}

void QV_ENTRY(void);

int main(int argc, char **argv) {
    if (argc > 1) {
        FILE *f = fopen(argv[1], "r");
        char line[256];
        while (f && fgets(line, sizeof line, f)) {
            char *eq = strchr(line, '=');
            if (!eq || qv_n >= 4096) continue;
            *eq = 0;
            strncpy(qv_tab[qv_n].name, line, 95);
            qv_tab[qv_n].v = atoll(eq + 1);
            qv_n++;
        }
        if (f) fclose(f);
    }
    QV_ENTRY();
    if (qv_failed) { printf("REPLAY-RESULT: violated\n"); return 1; }
    printf("REPLAY-RESULT: postconditions hold for this witness\n");
    return 0;
}
