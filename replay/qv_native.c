/*
 * native replay support.  Built with -DQV_NATIVE -DQV_ENTRY=<harness entry> (+ASan/UBSan).
 *   replay <witness-file>                 run the harness entry once on the recorded inputs
 *   replay --search <trials> <seed> <out> small-scope random search for a concrete failing input:
 *                                         every trial runs the entry in a forked child on freshly
 *                                         drawn small inputs (logged to <out> as they are drawn); the
 *                                         first child that violates a postcondition, trips a
 *                                         sanitizer or exceeds the 2 s watchdog ends the search.
 * exit: 0 postconditions hold / nothing found, 1 violated, 77 assumption of the harness not met
 */
#include <stdio.h>
#include <stdlib.h>
#include <string.h>
#include <unistd.h>
#include <signal.h>
#include <sys/wait.h>

int qv_failed = 0;
static struct { char name[96]; long long v; } qv_tab[8192];
static int qv_n = 0, qv_cur = 0;
static int qv_search = 0;
static unsigned long long qv_rng;
static FILE *qv_log;
#ifndef QV_WCAP
#define QV_WCAP 6
#endif

static unsigned long long rnd(void) {
    qv_rng ^= qv_rng << 13; qv_rng ^= qv_rng >> 7; qv_rng ^= qv_rng << 17;
    return qv_rng;
}

static const unsigned char QV_BYTES[] = {0, 0, ' ', '\t', '\n', '\r', '%', '+', '=', '&', '"', '\'', '\\', '<', '>', '/', '#',
    '[', ']', '$', '{', '}', 'a', 'b', 'A', 'B', 'f', 'F', 'g', 'z', '0', '1', '9', '.', '-', '_', ':', ';', ',', 0x7f, 0x80, 0xff, 0xc3};

static long long draw(const char *type, const char *name) {
    unsigned long long r = rnd();
    if (strchr(name, '[')) {                        /* a byte of an input buffer */
        if (r % 4 == 0) return (r >> 8) & 0xff;
        return QV_BYTES[(r >> 8) % sizeof QV_BYTES];
    }
    if (!strcmp(type, "bool")) return (r >> 8) & 1;
    if (!strcmp(type, "uchar") || !strcmp(type, "char") || !strcmp(type, "uint8_t")) {
        if (r % 3 == 0) return (r >> 8) & 0xff;
        return QV_BYTES[(r >> 8) % sizeof QV_BYTES];
    }
    if (!strcmp(type, "int") || !strcmp(type, "long") || !strcmp(type, "int64_t")) {
        long long span = 2 * (QV_WCAP + 3) + 1;
        return (long long)((r >> 8) % span) - (QV_WCAP + 3);
    }
    if (!strcmp(type, "uint32_t") || !strcmp(type, "uint64_t")) {
        if (r % 2) return (long long)(rnd() & 0xffffffffu);
        return (r >> 8) % (QV_WCAP + 3);
    }
    /* size_t, unsigned and anything else: small non-negative */
    return (r >> 8) % (QV_WCAP + 3);
}

long long qv_witness_t(const char *type, const char *name, long long dflt) {
    if (qv_search) {
        long long v = draw(type, name);
        if (qv_log) { fprintf(qv_log, "%s=%lld\n", name, v); fflush(qv_log); }
        return v;
    }
    /* recorded inputs are consumed in the order they were drawn */
    for (int i = qv_cur; i < qv_n; i++)
        if (!strcmp(qv_tab[i].name, name)) { qv_cur = i + 1; return qv_tab[i].v; }
    for (int i = qv_n - 1; i >= 0; i--)
        if (!strcmp(qv_tab[i].name, name)) return qv_tab[i].v;
    return dflt;
}
long long qv_witness(const char *name, long long dflt) { return qv_witness_t("", name, dflt); }

void QV_ENTRY(void);

static int run_once(void) {
    QV_ENTRY();
    if (qv_failed) { printf("REPLAY-RESULT: violated\n"); return 1; }
    printf("REPLAY-RESULT: postconditions hold for this witness\n");
    return 0;
}

int main(int argc, char **argv) {
    if (argc >= 5 && !strcmp(argv[1], "--search")) {
        long trials = atol(argv[2]);
        unsigned long long seed = strtoull(argv[3], NULL, 10);
        const char *out = argv[4];
        for (long t = 0; t < trials; t++) {
            fflush(stdout);
            pid_t pid = fork();
            if (pid == 0) {
                qv_search = 1;
                qv_rng = 0x9E3779B97F4A7C15ull ^ ((seed + 1) * 0x100000001B3ull + (unsigned long long)t * 0xD6E8FEB86659FD93ull);
                rnd(); rnd();
                qv_log = fopen(out, "w");
                freopen("/dev/null", "w", stdout);
                freopen("/dev/null", "w", stderr);
                alarm(2);
                _exit(run_once());
            }
            int st = 0;
            waitpid(pid, &st, 0);
            int bad = 0;
            if (WIFSIGNALED(st)) bad = 1;
            else if (WIFEXITED(st) && WEXITSTATUS(st) != 0 && WEXITSTATUS(st) != 77) bad = 1;
            if (bad) { printf("SEARCH: failing input found at trial %ld\n", t); return 1; }
        }
        unlink(out);
        printf("SEARCH: no failing input in %ld trials\n", trials);
        return 0;
    }
    if (argc > 1) {
        FILE *f = fopen(argv[1], "r");
        char line[256];
        while (f && fgets(line, sizeof line, f)) {
            char *eq = strchr(line, '=');
            if (!eq || qv_n >= 8192) continue;
            *eq = 0;
            strncpy(qv_tab[qv_n].name, line, 95);
            qv_tab[qv_n].v = atoll(eq + 1);
            qv_n++;
        }
        if (f) fclose(f);
    }
    return run_once();
}
